(* Sig.v — token conservation, part 1 (C01/C06/C10): the signature of a text is what is left of it when blanks and
   the delimiter characters ( ) [ ] { } $ , ; : are deleted.  `dsig d` is the signature of a document read along its
   flat branches; `wsig d` says that the two branches of every flat_alt have the same signature.  Then EVERY layout
   of d (RenderProofs.seqs: any choice at each flat_alt, so in particular the one the renderer takes at any width)
   has the signature dsig d, and so has the rendered text.  Every smart constructor of the builder is a homomorphism
   for dsig, and so is each of the four layout stylists (what they print has the signatures of what they were handed,
   in order). *)
From TV Require Import Render RenderProofs SeqProofs Doc Layout.
From Coq Require Import Lia.

Definition noise_byte (c : N) : bool :=
  (c =? 32) || (c =? 9) || (c =? 10) || (c =? 11) || (c =? 12) || (c =? 13) ||
  (c =? 40) || (c =? 41) || (c =? 91) || (c =? 93) || (c =? 123) || (c =? 125) ||
  (c =? 36) || (c =? 44) || (c =? 59) || (c =? 58).
Definition sig (s : str) : str := filter (fun c => negb (noise_byte c)) s.

Lemma sig_app a b : sig (a ++ b) = sig a ++ sig b.
Proof. unfold sig. apply filter_app. Qed.
Lemma sig_nil : sig [] = [].  Proof. reflexivity. Qed.
Lemma sig_idem s : sig (sig s) = sig s.
Proof.
  unfold sig. induction s as [|c s IH]; cbn; [reflexivity|].
  destruct (negb (noise_byte c)) eqn:E; cbn; rewrite ?E, IH; reflexivity.
Qed.

Fixpoint dsig (d : doc) : str :=
  match d with
  | DNil | DHardline => []
  | DAppend a b => dsig a ++ dsig b
  | DGroup x | DNest _ x | DAlign x => dsig x
  | DFlatAlt _ f => dsig f
  | DText s | DTextW _ s => sig s
  end.

Fixpoint wsig (d : doc) : bool :=
  match d with
  | DNil | DHardline | DText _ | DTextW _ _ => true
  | DAppend a b => wsig a && wsig b
  | DGroup x | DNest _ x | DAlign x => wsig x
  | DFlatAlt b f => str_eqb (dsig b) (dsig f) && wsig b && wsig f
  end.

Definition atoms_sig (x : list atom) : str :=
  concat (map (fun a => match a with AText s => sig s | ALine => [] end) x).
Lemma atoms_sig_app x y : atoms_sig (x ++ y) = atoms_sig x ++ atoms_sig y.
Proof. unfold atoms_sig. rewrite map_app, concat_app. reflexivity. Qed.

(* every layout of a well-signed document has the document's signature *)
Theorem seqs_sig d x : wsig d = true -> seqs d x -> atoms_sig x = dsig d.
Proof.
  intros Hw H. induction H; cbn [wsig dsig] in *; try reflexivity.
  - apply andb_prop in Hw. destruct Hw as [Ha Hb]. rewrite atoms_sig_app, IHseqs1, IHseqs2 by assumption. reflexivity.
  - auto.
  - apply andb_prop in Hw. destruct Hw as [Hw Hf]. apply andb_prop in Hw. destruct Hw as [He Hb].
    apply (proj1 (str_eqb_eq _ _)) in He. rewrite <- He. auto.
  - apply andb_prop in Hw. destruct Hw as [Hw Hf]. auto.
  - auto.
  - cbn. rewrite app_nil_r. reflexivity.
  - cbn. rewrite app_nil_r. reflexivity.
  - auto.
Qed.

Lemma sig_repeat_sp n s : sig (repeat_sp n s) = sig s.
Proof. revert s. induction n as [|n IH]; intros s; cbn [repeat_sp]; [reflexivity|]. rewrite IH. reflexivity. Qed.

Lemma flatten_events_sig es : sig (flatten_events es) = atoms_sig (map atom_of_event es).
Proof.
  induction es as [|e es IH]; [reflexivity|]. destruct e as [s|n]; cbn [flatten_events map atom_of_event].
  - rewrite sig_app, IH. reflexivity.
  - change (LF :: repeat_sp (N.to_nat n) (flatten_events es)) with ([LF] ++ repeat_sp (N.to_nat n) (flatten_events es)).
    rewrite sig_app, sig_repeat_sp, IH. reflexivity.
Qed.

Section Builders.
  Variable swidth : str -> N.
  Notation text := (Doc.text swidth).

  Lemma dsig_text s : dsig (text s) = sig s.
  Proof. unfold Doc.text. destruct s; [reflexivity|]. destruct (is_ascii _); reflexivity. Qed.
  Lemma wsig_text s : wsig (text s) = true.
  Proof. unfold Doc.text. destruct s; [reflexivity|]. destruct (is_ascii _); reflexivity. Qed.
  Lemma dsig_append a b : dsig (append a b) = dsig a ++ dsig b.
  Proof. unfold append. destruct a; destruct b; cbn; rewrite ?app_nil_r; reflexivity. Qed.
  Lemma wsig_append a b : wsig a = true -> wsig b = true -> wsig (append a b) = true.
  Proof. intros Ha Hb. unfold append. destruct a; destruct b; cbn [wsig] in *; rewrite ?Ha, ?Hb; auto. Qed.
  Lemma dsig_group d : dsig (group d) = dsig d.
  Proof. destruct d; reflexivity. Qed.
  Lemma wsig_group d : wsig (group d) = wsig d.
  Proof. destruct d; reflexivity. Qed.
  Lemma dsig_nest k d : dsig (nest k d) = dsig d.
  Proof. unfold nest. destruct d; try reflexivity; destruct (Z.eqb k 0); reflexivity. Qed.
  Lemma wsig_nest k d : wsig (nest k d) = wsig d.
  Proof. unfold nest. destruct d; try reflexivity; destruct (Z.eqb k 0); reflexivity. Qed.
  Lemma dsig_flat_alt b f : dsig (flat_alt b f) = dsig f.  Proof. reflexivity. Qed.
  Lemma wsig_flat_alt b f : dsig b = dsig f -> wsig b = true -> wsig f = true -> wsig (flat_alt b f) = true.
  Proof. intros E Hb Hf. cbn. rewrite E, str_eqb_refl, Hb, Hf. reflexivity. Qed.
  Lemma dsig_align d : dsig (align d) = dsig d.  Proof. reflexivity. Qed.
  Lemma dsig_hang k d : dsig (hang k d) = dsig d.  Proof. unfold hang. cbn. apply dsig_nest. Qed.
  Lemma wsig_hang k d : wsig (hang k d) = wsig d.  Proof. unfold hang. cbn. apply wsig_nest. Qed.
  Lemma dsig_enclose a b d : dsig (enclose a b d) = dsig a ++ dsig d ++ dsig b.
  Proof. unfold enclose. rewrite !dsig_append, app_assoc. reflexivity. Qed.
  Lemma wsig_enclose a b d : wsig a = true -> wsig b = true -> wsig d = true -> wsig (enclose a b d) = true.
  Proof. intros. unfold enclose. auto using wsig_append. Qed.
  Lemma dsig_space : dsig space = [].  Proof. reflexivity. Qed.
  Lemma dsig_line : dsig line = [].  Proof. reflexivity. Qed.
  Lemma dsig_line_ : dsig line_ = [].  Proof. reflexivity. Qed.
  Lemma dsig_hardline : dsig hardline = [].  Proof. reflexivity. Qed.
  Lemma wsig_line : wsig line = true.  Proof. reflexivity. Qed.
  Lemma wsig_line_ : wsig line_ = true.  Proof. reflexivity. Qed.

  Lemma dsig_repeat_aux d n acc : dsig (repeat_n_aux d n acc) = dsig acc ++ concat (repeat (dsig d) n).
  Proof.
    revert acc. induction n as [|n IH]; intros acc; cbn; [rewrite app_nil_r; reflexivity|].
    rewrite IH, dsig_append, <- app_assoc. reflexivity.
  Qed.
  Lemma dsig_repeat_quiet d n : dsig d = [] -> dsig (repeat_n d n) = [].
  Proof.
    intros H. unfold repeat_n. rewrite dsig_repeat_aux, H. cbn.
    induction (N.to_nat n); cbn; auto.
  Qed.
  Lemma wsig_repeat d n : wsig d = true -> wsig (repeat_n d n) = true.
  Proof.
    intros H. unfold repeat_n. generalize (N.to_nat n). intros k.
    assert (G : forall acc, wsig acc = true -> wsig (repeat_n_aux d k acc) = true).
    { induction k as [|k IH]; intros acc Ha; cbn; [exact Ha|]. apply IH. apply wsig_append; assumption. }
    apply G. reflexivity.
  Qed.

  Lemma dsig_fold_append (ds : list doc) acc :
    dsig (fold_left append ds acc) = dsig acc ++ concat (map dsig ds).
  Proof.
    revert acc. induction ds as [|d ds IH]; intros acc; cbn; [rewrite app_nil_r; reflexivity|].
    rewrite IH, dsig_append, <- app_assoc. reflexivity.
  Qed.
  Lemma dsig_concat_docs ds : dsig (concat_docs ds) = concat (map dsig ds).
  Proof. unfold concat_docs. rewrite dsig_fold_append. reflexivity. Qed.
  Lemma wsig_fold_append ds acc : wsig acc = true -> Forall (fun d => wsig d = true) ds -> wsig (fold_left append ds acc) = true.
  Proof.
    intros Ha H. revert acc Ha. induction H as [|d ds Hd H IH]; intros acc Ha; cbn; [exact Ha|].
    apply IH. apply wsig_append; assumption.
  Qed.
  Lemma wsig_concat_docs ds : Forall (fun d => wsig d = true) ds -> wsig (concat_docs ds) = true.
  Proof. intros H. unfold concat_docs. apply wsig_fold_append; [reflexivity|exact H]. Qed.

  Lemma dsig_intersperse ds sep : dsig sep = [] -> dsig (intersperse ds sep) = concat (map dsig ds).
  Proof.
    intros Hs. unfold intersperse. destruct ds as [|d ds]; [reflexivity|].
    assert (G : forall acc, dsig (fold_left (fun a x => append (append a sep) x) ds acc) = dsig acc ++ concat (map dsig ds)).
    { induction ds as [|x ds IH]; intros acc; cbn; [rewrite app_nil_r; reflexivity|].
      rewrite IH, !dsig_append, Hs, app_nil_r, <- app_assoc. reflexivity. }
    rewrite G, dsig_append. reflexivity.
  Qed.
  Lemma wsig_intersperse ds sep : wsig sep = true -> Forall (fun d => wsig d = true) ds -> wsig (intersperse ds sep) = true.
  Proof.
    intros Hs H. unfold intersperse. destruct H as [|d ds Hd H]; [reflexivity|].
    assert (G : forall acc, wsig acc = true -> wsig (fold_left (fun a x => append (append a sep) x) ds acc) = true).
    { induction H as [|x ds Hx H IH]; intros acc Ha; cbn; [exact Ha|]. apply IH. auto using wsig_append. }
    apply G. apply wsig_append; [reflexivity|exact Hd].
  Qed.
End Builders.
