(* Mon.v — the result/counter monad of the converter model.
   res: Ok | Panic site (a Rust panic at a named partial operation).
   The state is the C18 conversion counter (bumped at the four hooked entry points). *)
From TV Require Export Str.

Inductive site :=
| SMathDelimitedSlice      (* math.rs: inner_nodes[1..len-1] *)
| SChainRemove0            (* layout/chain.rs: docs.remove(0) *)
| SCommentUnreachable      (* comment.rs: unreachable! *)
| SFollowLeadingUnwrap     (* comment.rs: get_follow_leading(text).unwrap() *)
| SArgsInMathSlice         (* func_call.rs: children[i..=j] *)
| SMarkupExpect            (* markup.rs: .expect("markup") *)
| SRootCast                (* lib.rs: root.cast().unwrap() *)
| SImportCast              (* import.rs: cast().unwrap() *)
| STrimRange               (* utils.rs: s[rng] *)
| SBadRequest.             (* model-internal: a request the Rust type system rules out *)

Inductive res (A : Type) :=
| Ok (a : A)
| Panic (s : site).
Arguments Ok {A} a.
Arguments Panic {A} s.

Definition M (A : Type) : Type := N -> res (A * N).

Definition ret {A} (a : A) : M A := fun n => Ok (a, n).
Definition bind {A B} (m : M A) (f : A -> M B) : M B :=
  fun n => match m n with
           | Ok (a, n') => f a n'
           | Panic s => Panic s
           end.
Definition panic {A} (s : site) : M A := fun _ => Panic s.
Definition bump : M unit := fun n => Ok (tt, n + 1).

Notation "x <- m ;; f" := (bind m (fun x => f)) (at level 61, m at next level, right associativity).
Notation "m ;;; f" := (bind m (fun _ => f)) (at level 61, right associativity).

(* monadic left fold *)
Fixpoint foldM {A S} (f : S -> A -> M S) (l : list A) (s : S) : M S :=
  match l with
  | [] => ret s
  | x :: l' => s' <- f s x ;; foldM f l' s'
  end.

Definition run_m {A} (m : M A) : res (A * N) := m 0.
