(* SigLayout.v — token conservation, part 2: the four layout stylists are homomorphisms for the signature.
   Whatever the style, the fold style and the comments' positions, the document a stylist prints has the signatures
   of the documents it was handed, in the order in which it was handed them (delimiters and separators of a style
   are noise by assumption `quiet`: every style the converters use has them among ( ) [ ] { } $ , ; :). *)
From TV Require Import Render RenderProofs Doc Layout Sig ListProofs.
From Coq Require Import Lia.

Section SigLayout.
  Variable swidth : str -> N.
  Variable tab : N.
  Notation text := (Doc.text swidth).

  Definition osig (o : option doc) : str := match o with Some d => dsig d | None => [] end.
  Definition owsig (o : option doc) : bool := match o with Some d => wsig d | None => true end.

  Ltac dif := repeat match goal with |- context [if ?b then _ else _] => destruct b end.

  (* ---------------- flow ---------------- *)
  Lemma flow_push_doc_sig f d sb sa : dsig (f_doc (flow_push_doc f d sb sa)) = dsig (f_doc f) ++ dsig d.
  Proof.
    unfold flow_push_doc. cbn [f_doc]. rewrite dsig_append. destruct (sb && _); [rewrite dsig_append; cbn; rewrite app_nil_r|]; reflexivity.
  Qed.
  Lemma flow_push_doc_wsig f d sb sa :
    wsig (f_doc f) = true -> wsig d = true -> wsig (f_doc (flow_push_doc f d sb sa)) = true.
  Proof.
    intros Hf Hd. unfold flow_push_doc. cbn [f_doc]. apply wsig_append; [|exact Hd].
    destruct (sb && _); [apply wsig_append; [exact Hf|reflexivity]|exact Hf].
  Qed.
  Lemma flow_push_comment_sig f d blk : dsig (f_doc (flow_push_comment f d blk)) = dsig (f_doc f) ++ dsig d.
  Proof. unfold flow_push_comment. destruct blk; rewrite flow_push_doc_sig; [reflexivity|]. destruct (negb _); reflexivity. Qed.
  Lemma flow_push_comment_wsig f d blk :
    wsig (f_doc f) = true -> wsig d = true -> wsig (f_doc (flow_push_comment f d blk)) = true.
  Proof.
    intros Hf Hd. unfold flow_push_comment. destruct blk; apply flow_push_doc_wsig; auto. destruct (negb _); exact Hf.
  Qed.

  (* ---------------- list ---------------- *)
  Definition isig (it : item) : str :=
    match it with
    | IComment d => dsig d
    | ICommented b a => dsig b ++ osig a
    | ILinebreak _ => []
    end.
  Definition iwsig (it : item) : bool :=
    match it with
    | IComment d => wsig d
    | ICommented b a => wsig b && owsig a
    | ILinebreak _ => true
    end.
  Definition isigs (its : list item) : str := concat (map isig its).
  Definition dsigs (ds : list doc) : str := concat (map dsig ds).
  Lemma isigs_app a b : isigs (a ++ b) = isigs a ++ isigs b.
  Proof. unfold isigs. rewrite map_app, concat_app. reflexivity. Qed.
  Lemma dsigs_app a b : dsigs (a ++ b) = dsigs a ++ dsigs b.
  Proof. unfold dsigs. rewrite map_app, concat_app. reflexivity. Qed.

  Lemma isigs_one x : isigs [x] = isig x.
  Proof. unfold isigs. cbn. apply app_nil_r. Qed.
  Lemma dsigs_one x : dsigs [x] = dsig x.
  Proof. unfold dsigs. cbn. apply app_nil_r. Qed.
  Lemma dsigs_nil : dsigs [] = [].  Proof. reflexivity. Qed.

  (* the signature collected so far: the items, then the comments not yet placed; a pending hash is `hsig` *)
  Definition lsig (l : lst) : str := isigs (l_items l) ++ dsigs (l_free l).
  Definition hsig (l : lst) : str := if l_peek_hash l then [35] else [].
  Definition lwsig (l : lst) : Prop := Forall (fun it => iwsig it = true) (l_items l) /\ Forall (fun d => wsig d = true) (l_free l).

  Lemma isigs_map_comment fr : isigs (map IComment fr) = dsigs fr.
  Proof. unfold isigs, dsigs. rewrite map_map. reflexivity. Qed.

  Lemma detach_sig l : lsig (detach_comments l) = lsig l.
  Proof.
    unfold lsig, detach_comments, set_free, set_items. cbn [l_items l_free l_peek_hash].
    rewrite isigs_app, isigs_map_comment, dsigs_nil, app_nil_r. reflexivity.
  Qed.
  Lemma detach_wsig l : lwsig l -> lwsig (detach_comments l).
  Proof.
    intros [Hi Hf]. split; cbn; [|constructor]. apply Forall_app. split; [exact Hi|].
    apply Forall_map. exact Hf.
  Qed.

  Lemma try_attach_sig l : lsig (fst (try_attach_comments l)) = lsig l.
  Proof.
    unfold try_attach_comments. destruct (l_can_attach l && _); [|reflexivity].
    destruct (rev (l_items l)) as [|x r] eqn:Er; [reflexivity|].
    destruct x as [c|body after|n]; try reflexivity. cbn [fst].
    assert (Ei : l_items l = rev r ++ [ICommented body after]).
    { rewrite <- (rev_involutive (l_items l)), Er. reflexivity. }
    unfold lsig, set_free, set_items. cbn [l_items l_free l_peek_hash]. rewrite Ei, !isigs_app, !isigs_one, dsigs_nil.
    cbn [isig app]. rewrite app_nil_r, <- !app_assoc. f_equal. f_equal.
    assert (Eadd : dsig (append space (intersperse (l_free l) space)) = dsigs (l_free l)).
    { rewrite dsig_append, dsig_intersperse by reflexivity. reflexivity. }
    destruct after as [c|]; cbn [osig]; rewrite ?(dsig_append c), Eadd; reflexivity.
  Qed.
  Lemma try_attach_wsig l : lwsig l -> lwsig (fst (try_attach_comments l)).
  Proof.
    intros [Hi Hf]. unfold try_attach_comments. destruct (l_can_attach l && _); [|split; assumption].
    destruct (rev (l_items l)) as [|x r] eqn:Er; [split; assumption|].
    destruct x as [c|body after|n]; try (split; assumption). cbn [fst].
    assert (Ei : l_items l = rev r ++ [ICommented body after]).
    { rewrite <- (rev_involutive (l_items l)), Er. reflexivity. }
    rewrite Ei in Hi. apply Forall_app in Hi. destruct Hi as [Hr Hl]. inversion Hl as [|? ? Hb _]; subst.
    cbn in Hb. apply andb_prop in Hb. destruct Hb as [Hb Ha].
    split; cbn; [|constructor]. apply Forall_app. split; [exact Hr|]. constructor; [|constructor].
    assert (Hadd : wsig (append space (intersperse (l_free l) space)) = true).
    { apply wsig_append; [reflexivity|]. apply wsig_intersperse; [reflexivity|exact Hf]. }
    cbn. rewrite Hb. destruct after; cbn in *; [apply wsig_append; assumption|exact Hadd].
  Qed.
  Lemma try_attach_peek l : l_peek_hash (fst (try_attach_comments l)) = l_peek_hash l.
  Proof.
    unfold try_attach_comments. destruct (l_can_attach l && _); [|reflexivity].
    destruct (rev (l_items l)) as [|x r]; [reflexivity|]. destruct x; reflexivity.
  Qed.

  Lemma attach_or_detach_sig l : lsig (attach_or_detach_comments l) = lsig l.
  Proof.
    unfold attach_or_detach_comments. pose proof (try_attach_sig l) as H.
    destruct (try_attach_comments l) as [l' ok]. cbn in H. destruct ok; [exact H|]. rewrite detach_sig. exact H.
  Qed.
  Lemma attach_or_detach_wsig l : lwsig l -> lwsig (attach_or_detach_comments l).
  Proof.
    intros Hl. unfold attach_or_detach_comments. pose proof (try_attach_wsig l Hl) as H.
    destruct (try_attach_comments l) as [l' ok]. cbn in H. destruct ok; [exact H|]. apply detach_wsig. exact H.
  Qed.
  Lemma attach_or_detach_free l : l_free (attach_or_detach_comments l) = [].
  Proof.
    unfold attach_or_detach_comments, try_attach_comments.
    destruct (l_can_attach l && _); [|reflexivity].
    destruct (rev (l_items l)) as [|x r]; [reflexivity|]. destruct x; reflexivity.
  Qed.

  Lemma final_sig l2 bd :
    lsig (set_can_attach (set_items l2 (l_items l2 ++ [ICommented bd None])) true) = isigs (l_items l2) ++ dsig bd ++ dsigs (l_free l2).
  Proof.
    unfold lsig, set_can_attach, set_items. cbn [l_items l_free]. rewrite isigs_app, isigs_one. cbn [isig osig].
    rewrite app_nil_r, <- app_assoc. reflexivity.
  Qed.
  Lemma hash_doc_sig (b : bool) : dsig (if b then text [35] else DNil) = if b then [35] else [].
  Proof. destruct b; [rewrite dsig_text|]; reflexivity. Qed.

  Lemma add_item_sig l d : lsig (lst_add_item swidth l d) = lsig l ++ hsig l ++ dsig d.
  Proof.
    unfold lst_add_item.
    set (l1 := mk_lst _ _ _ _ (l_real l + 1) _ _ _ _ _ _).
    assert (E1 : lsig l = lsig l1) by reflexivity. assert (Eh : hsig l = hsig l1) by reflexivity. rewrite E1, Eh. clear E1 Eh.
    destruct (l_no_front l1).
    - cbv beta iota zeta. rewrite final_sig, !dsig_append, hash_doc_sig. cbn [dsig app].
      unfold detach_comments, set_free, set_items, lsig, hsig. cbn [l_items l_free l_peek_hash].
      rewrite isigs_app, isigs_map_comment, dsigs_nil, app_nil_r, <- !app_assoc. reflexivity.
    - destruct (l_free l1) as [|x fr] eqn:Ef.
      + cbv beta iota zeta. rewrite final_sig, !dsig_append, hash_doc_sig. cbn [dsig app].
        unfold lsig, hsig. rewrite Ef, dsigs_nil, !app_nil_r. reflexivity.
      + cbv beta iota zeta. rewrite final_sig, !dsig_append, hash_doc_sig.
        unfold set_free, lsig, hsig. cbn [l_items l_free l_peek_hash]. rewrite Ef, dsigs_nil, app_nil_r, <- !app_assoc. f_equal. f_equal.
        assert (Eb : forall sep, dsig sep = [] -> dsig (append (intersperse (x :: fr) sep) sep) = dsigs (x :: fr)).
        { intros sep Hs. rewrite dsig_append, dsig_intersperse, Hs, app_nil_r by exact Hs. reflexivity. }
        destruct (l_no_detach l1); [rewrite (Eb space) by reflexivity|rewrite dsig_group, (Eb line) by reflexivity]; reflexivity.
  Qed.
  Lemma add_item_peek l d : l_peek_hash (lst_add_item swidth l d) = l_peek_hash l.
  Proof.
    unfold lst_add_item. destruct (l_no_front _); [reflexivity|]. cbn. destruct (l_free l); reflexivity.
  Qed.
  Lemma final_wsig l2 bd :
    lwsig l2 -> wsig bd = true -> lwsig (set_can_attach (set_items l2 (l_items l2 ++ [ICommented bd None])) true).
  Proof.
    intros [Hi Hf] Hb. split; cbn [set_can_attach set_items l_items l_free]; [|exact Hf].
    apply Forall_app. split; [exact Hi|]. constructor; [|constructor]. cbn. rewrite Hb. reflexivity.
  Qed.
  Lemma add_item_wsig l d : lwsig l -> wsig d = true -> lwsig (lst_add_item swidth l d).
  Proof.
    intros [Hi Hf] Hd. unfold lst_add_item.
    set (l1 := mk_lst _ _ _ _ (l_real l + 1) _ _ _ _ _ _).
    assert (H1 : lwsig l1) by (split; assumption).
    assert (Hh : forall b : bool, wsig (if b then text [35] else DNil) = true) by (intros []; [apply wsig_text|reflexivity]).
    destruct (l_no_front l1).
    - cbv beta iota zeta. apply final_wsig; [apply detach_wsig; exact H1|].
      apply wsig_append; [apply wsig_append; [reflexivity|apply Hh]|exact Hd].
    - destruct (l_free l1) as [|x fr] eqn:Ef.
      + cbv beta iota zeta. apply final_wsig; [exact H1|]. apply wsig_append; [apply wsig_append; [reflexivity|apply Hh]|exact Hd].
      + assert (Hfr : Forall (fun d => wsig d = true) (x :: fr)) by (rewrite <- Ef; exact Hf).
        cbv beta iota zeta. apply final_wsig.
        * split; cbn [set_free l_items l_free]; [exact Hi|constructor].
        * apply wsig_append; [apply wsig_append; [|apply Hh]|exact Hd].
          destruct (l_no_detach l1); [|rewrite wsig_group]; (apply wsig_append; [apply wsig_intersperse; [reflexivity|exact Hfr]|reflexivity]).
  Qed.

  Lemma isigs_pop r : isigs (rev (pop_linebreaks_rev r)) = isigs (rev r).
  Proof.
    induction r as [|x r IH]; [reflexivity|]. destruct x; try reflexivity.
    cbn [pop_linebreaks_rev rev]. rewrite IH, isigs_app. cbn. rewrite app_nil_r. reflexivity.
  Qed.
  Lemma windup_sig l : lsig (lst_windup l) = lsig l.
  Proof.
    unfold lst_windup. rewrite <- (attach_or_detach_sig l).
    set (l1 := attach_or_detach_comments l). unfold lsig, set_items. cbn [l_items l_free]. rewrite isigs_pop, rev_involutive. reflexivity.
  Qed.
  Lemma pop_incl r : incl (pop_linebreaks_rev r) r.
  Proof. induction r as [|x r IH]; [apply incl_refl|]. destruct x; try apply incl_refl. cbn. apply incl_tl. exact IH. Qed.
  Lemma windup_wsig l : lwsig l -> lwsig (lst_windup l).
  Proof.
    intros Hl. unfold lst_windup. destruct (attach_or_detach_wsig l Hl) as [Hi Hf]. split; cbn; [|exact Hf].
    rewrite Forall_forall in *. intros x Hx. apply Hi. apply in_rev in Hx. apply pop_incl in Hx. apply in_rev. exact Hx.
  Qed.
  Lemma windup_free l : l_free (lst_windup l) = [].
  Proof. unfold lst_windup. cbn. apply attach_or_detach_free. Qed.
  Lemma windup_peek l : l_peek_hash (lst_windup l) = l_peek_hash (attach_or_detach_comments l).
  Proof. reflexivity. Qed.

  (* the style's own punctuation is noise *)
  Definition quiet (sty : list_style) : Prop :=
    sig (ls_sep sty) = [] /\ sig (ls_open sty) = [] /\ sig (ls_close sty) = [].

  Section Print.
    Variable sty : list_style.
    Variable sep : doc.
    Hypothesis Hsep : dsig sep = [].
    Hypothesis Hwsep : wsig sep = true.

    Lemma app_opt_sig d o : dsig (app_opt d o) = dsig d ++ osig o.
    Proof. destruct o; cbn; [apply dsig_append|rewrite app_nil_r; reflexivity]. Qed.
    Lemma app_opt_wsig d o : wsig d = true -> owsig o = true -> wsig (app_opt d o) = true.
    Proof. intros Hd Ho. destruct o; cbn in *; [apply wsig_append; assumption|exact Hd]. Qed.

    Lemma print_never_sig items : dsig (print_never sty sep items) = isigs items.
    Proof.
      unfold print_never. set (count := length items). clearbody count.
      match goal with |- dsig (fst (fold_left ?f _ ?a)) = _ => set (step := f); set (init := a) end.
      assert (G : forall its acc i, dsig (fst (fold_left step its (acc, i))) = dsig acc ++ isigs its).
      { induction its as [|it its IH]; intros acc i; cbn [fold_left]; [cbn; rewrite app_nil_r; reflexivity|].
        unfold step at 2. cbn beta iota. rewrite IH. unfold isigs. cbn [map concat]. rewrite app_assoc. f_equal.
        destruct it as [c|body after|n]; cbn [isig].
        - rewrite !dsig_append. cbn. rewrite app_nil_r. reflexivity.
        - destruct (negb _ || negb _); rewrite ?dsig_append, app_opt_sig, dsig_append, Hsep; cbn; rewrite ?app_nil_r; reflexivity.
        - rewrite dsig_append, dsig_repeat_quiet by reflexivity. reflexivity. }
      unfold init. rewrite G. destruct (ls_tight_delim sty); reflexivity.
    Qed.
    Lemma print_never_wsig items : Forall (fun it => iwsig it = true) items -> wsig (print_never sty sep items) = true.
    Proof.
      intros Hi. unfold print_never. set (count := length items). clearbody count.
      match goal with |- wsig (fst (fold_left ?f _ ?a)) = _ => set (step := f); set (init := a) end.
      assert (G : forall its acc i, Forall (fun it => iwsig it = true) its -> wsig acc = true -> wsig (fst (fold_left step its (acc, i))) = true).
      { induction its as [|it its IH]; intros acc i Hits Ha; cbn [fold_left]; [exact Ha|].
        inversion Hits as [|? ? Hit Hrest]; subst. unfold step at 2. cbn beta iota. apply IH; [exact Hrest|].
        destruct it as [c|body after|n]; cbn [iwsig] in Hit.
        - auto using wsig_append.
        - apply andb_prop in Hit. destruct Hit as [Hb Ha'].
          assert (wsig (append acc (app_opt (append body sep) after)) = true)
            by (apply wsig_append; [exact Ha|apply app_opt_wsig; [apply wsig_append; assumption|exact Ha']]).
          destruct (negb _ || negb _); [apply wsig_append; [assumption|reflexivity]|assumption].
        - apply wsig_append; [exact Ha|apply wsig_repeat; reflexivity]. }
      apply G; [exact Hi|]. unfold init. destruct (ls_tight_delim sty); reflexivity.
    Qed.

    Lemma print_always_sig real single items : dsig (print_always sty sep real single items) = isigs items.
    Proof.
      unfold print_always. set (count := length items). clearbody count.
      match goal with |- dsig (fst (fst (fold_left ?f _ ?a))) = _ => set (step := f) end.
      assert (G : forall its acc i s, dsig (fst (fst (fold_left step its (acc, i, s)))) = dsig acc ++ isigs its).
      { induction its as [|it its IH]; intros acc i s; cbn [fold_left]; [cbn; rewrite app_nil_r; reflexivity|].
        unfold step at 2. cbn beta iota.
        destruct it as [c|body after|n]; rewrite IH; unfold isigs; cbn [map concat isig]; rewrite app_assoc; f_equal.
        - dif; rewrite !dsig_append; cbn; rewrite ?app_nil_r; reflexivity.
        - dif; rewrite ?dsig_append, app_opt_sig, ?dsig_append, ?Hsep; cbn; rewrite ?app_nil_r; reflexivity.
        - rewrite app_nil_r. reflexivity. }
      rewrite G. reflexivity.
    Qed.
    Lemma print_always_wsig real single items :
      Forall (fun it => iwsig it = true) items -> wsig (print_always sty sep real single items) = true.
    Proof.
      intros Hi. unfold print_always. set (count := length items). clearbody count.
      match goal with |- wsig (fst (fst (fold_left ?f _ ?a))) = _ => set (step := f) end.
      assert (G : forall its acc i s, Forall (fun it => iwsig it = true) its -> wsig acc = true ->
                                      wsig (fst (fst (fold_left step its (acc, i, s)))) = true).
      { induction its as [|it its IH]; intros acc i s Hits Ha; cbn [fold_left]; [exact Ha|].
        inversion Hits as [|? ? Hit Hrest]; subst. unfold step at 2. cbn beta iota.
        destruct it as [c|body after|n]; cbn [iwsig] in Hit; apply IH; try exact Hrest; try exact Ha.
        - apply wsig_append; [exact Ha|]. dif; auto using wsig_append.
        - apply andb_prop in Hit. destruct Hit as [Hb Ha'].
          assert (wsig (append acc (app_opt body after)) = true) by (apply wsig_append; [exact Ha|apply app_opt_wsig; assumption]).
          dif; auto using wsig_append. }
      apply G; [exact Hi|reflexivity].
    Qed.

    Lemma print_fit_sig real single items : dsig (print_fit sty sep real single items) = isigs items.
    Proof.
      unfold print_fit. set (count := length items). clearbody count.
      match goal with |- dsig (fst (fst (fold_left ?f _ ?a))) = _ => set (step := f) end.
      assert (G : forall its acc i s, dsig (fst (fst (fold_left step its (acc, i, s)))) = dsig acc ++ isigs its).
      { induction its as [|it its IH]; intros acc i s; cbn [fold_left]; [cbn; rewrite app_nil_r; reflexivity|].
        unfold step at 2. cbn beta iota.
        destruct it as [c|body after|n]; rewrite IH; unfold isigs; cbn [map concat isig]; rewrite app_assoc; f_equal.
        - dif; rewrite !dsig_append; cbn; rewrite ?app_nil_r; reflexivity.
        - rewrite !dsig_append. f_equal. rewrite <- app_assoc. f_equal.
          assert (El : forall b1 b2 : bool, dsig (if b1 then line else if b2 then DNil else line_) = []) by (intros [] []; reflexivity).
          rewrite El, app_nil_r.
          destruct after as [a|]; cbn [osig].
          + cbn [dsig flat_alt]. dif; rewrite ?dsig_append, ?Hsep, ?app_nil_r; reflexivity.
          + dif; try reflexivity; exact Hsep.
        - rewrite dsig_append, dsig_repeat_quiet by reflexivity. rewrite app_nil_r. reflexivity. }
      rewrite G. destruct (ls_tight_delim sty); reflexivity.
    Qed.
    Lemma print_fit_wsig real single items :
      Forall (fun it => iwsig it = true) items -> wsig (print_fit sty sep real single items) = true.
    Proof.
      intros Hi. unfold print_fit. set (count := length items). clearbody count.
      match goal with |- wsig (fst (fst (fold_left ?f _ ?a))) = _ => set (step := f); set (init := a) end.
      assert (G : forall its acc i s, Forall (fun it => iwsig it = true) its -> wsig acc = true ->
                                      wsig (fst (fst (fold_left step its (acc, i, s)))) = true).
      { induction its as [|it its IH]; intros acc i s Hits Ha; cbn [fold_left]; [exact Ha|].
        inversion Hits as [|? ? Hit Hrest]; subst. unfold step at 2. cbn beta iota.
        destruct it as [c|body after|n]; cbn [iwsig] in Hit; apply IH; try exact Hrest.
        - apply wsig_append; [exact Ha|]. dif; auto using wsig_append.
        - apply andb_prop in Hit. destruct Hit as [Hb Ha'].
          apply wsig_append; [exact Ha|]. apply wsig_append.
          + apply wsig_append; [exact Hb|]. destruct after as [a|]; cbn [owsig] in Ha'.
            * apply wsig_flat_alt.
              -- dif; rewrite !dsig_append, Hsep, ?app_nil_r; reflexivity.
              -- apply wsig_append; assumption.
              -- dif; [apply wsig_append; assumption|exact Ha'].
            * dif; try reflexivity; try exact Hwsep.
              apply wsig_flat_alt; [exact Hsep|exact Hwsep|reflexivity].
          + dif; reflexivity.
        - apply wsig_append; [exact Ha|apply wsig_repeat; reflexivity]. }
      apply G; [exact Hi|]. unfold init. destruct (ls_tight_delim sty); reflexivity.
    Qed.
  End Print.

  Lemma sig_nil_text s : sig s = [] -> dsig (text s) = [].
  Proof. intros H. rewrite dsig_text. exact H. Qed.

  Theorem lst_print_sig l sty : quiet sty -> dsig (lst_print_doc swidth tab l sty) = isigs (l_items l).
  Proof.
    intros (Hs & Ho & Hc). unfold lst_print_doc.
    assert (Hsep : dsig (text (ls_sep sty)) = []) by (apply sig_nil_text; exact Hs).
    assert (Hop : dsig (text (ls_open sty)) = []) by (apply sig_nil_text; exact Ho).
    assert (Hcl : dsig (text (ls_close sty)) = []) by (apply sig_nil_text; exact Hc).
    destruct (l_items l) as [|x its] eqn:Ei.
    - destruct (ls_omit_empty sty); [reflexivity|]. destruct (ls_add_delim_space sty); rewrite !dsig_append, Hop, Hcl; reflexivity.
    - set (items := x :: its) in *.
      destruct (if l_has_line_comment l then Never else l_fold l).
      + pose proof (print_fit_sig sty _ Hsep (l_real l) (l_real l =? 1) items) as Hp.
        set (p := print_fit _ _ _ _ _) in *.
        assert (Hin : dsig (if negb (ls_no_indent sty) then nest (ztab tab) p else p) = isigs items).
        { destruct (negb _); rewrite ?dsig_nest; exact Hp. }
        set (inner := if negb (ls_no_indent sty) then nest (ztab tab) p else p) in *.
        destruct (_ && _); [rewrite dsig_group; exact Hin|].
        destruct (ls_omit_flat sty); [rewrite dsig_group, dsig_enclose; cbn; rewrite app_nil_r; exact Hin|].
        destruct (ls_add_delim_space sty).
        * rewrite dsig_group, dsig_enclose. cbn [dsig flat_alt]. rewrite !dsig_append, Hop, Hcl. cbn. rewrite app_nil_r. exact Hin.
        * rewrite dsig_enclose, dsig_group, Hop, Hcl, app_nil_r. exact Hin.
      + pose proof (print_never_sig sty _ Hsep items) as Hp.
        rewrite dsig_enclose, Hop, Hcl, app_nil_r. destruct (negb _); rewrite ?dsig_nest; exact Hp.
      + pose proof (print_always_sig sty _ Hsep (l_real l) (l_real l =? 1) items) as Hp.
        destruct (_ || _); [rewrite dsig_group; exact Hp|].
        destruct (ls_add_delim_space sty); rewrite !dsig_enclose, ?dsig_group, Hop, Hcl; cbn; rewrite ?app_nil_r; exact Hp.
  Qed.

  Theorem lst_print_wsig l sty :
    quiet sty -> Forall (fun it => iwsig it = true) (l_items l) -> wsig (lst_print_doc swidth tab l sty) = true.
  Proof.
    intros (Hs & Ho & Hc) Hi. unfold lst_print_doc.
    assert (Hsep : dsig (text (ls_sep sty)) = []) by (apply sig_nil_text; exact Hs).
    assert (Hop : dsig (text (ls_open sty)) = []) by (apply sig_nil_text; exact Ho).
    assert (Hcl : dsig (text (ls_close sty)) = []) by (apply sig_nil_text; exact Hc).
    pose proof (wsig_text swidth) as Wt.
    destruct (l_items l) as [|x its] eqn:Ei.
    - destruct (ls_omit_empty sty); [reflexivity|]. destruct (ls_add_delim_space sty); auto using wsig_append.
    - set (items := x :: its) in *.
      destruct (if l_has_line_comment l then Never else l_fold l).
      + pose proof (print_fit_wsig sty _ Hsep (Wt (ls_sep sty)) (l_real l) (l_real l =? 1) items Hi) as Hp.
        set (p := print_fit _ _ _ _ _) in *.
        assert (Hin : wsig (if negb (ls_no_indent sty) then nest (ztab tab) p else p) = true).
        { destruct (negb _); rewrite ?wsig_nest; exact Hp. }
        set (inner := if negb (ls_no_indent sty) then nest (ztab tab) p else p) in *.
        destruct (_ && _); [rewrite wsig_group; exact Hin|].
        destruct (ls_omit_flat sty).
        { rewrite wsig_group. apply wsig_enclose; [| |exact Hin]; (apply wsig_flat_alt; [rewrite ?Hop, ?Hcl; reflexivity|apply Wt|reflexivity]). }
        destruct (ls_add_delim_space sty).
        * rewrite wsig_group. apply wsig_enclose; [| |exact Hin]; apply wsig_flat_alt; rewrite ?dsig_append, ?Hop, ?Hcl; auto using wsig_append.
        * apply wsig_enclose; auto. rewrite wsig_group. exact Hin.
      + pose proof (print_never_wsig sty _ (Wt (ls_sep sty)) items Hi) as Hp.
        apply wsig_enclose; auto. destruct (negb _); rewrite ?wsig_nest; exact Hp.
      + pose proof (print_always_wsig sty _ (Wt (ls_sep sty)) (l_real l) (l_real l =? 1) items Hi) as Hp.
        destruct (_ || _); [rewrite wsig_group; exact Hp|].
        destruct (ls_add_delim_space sty); repeat apply wsig_enclose; auto; rewrite wsig_group; exact Hp.
  Qed.

  (* ---------------- chain ---------------- *)
  Definition csig (it : chain_item) : str :=
    match it with CBody d | COp d | CComment d | CAttached d => dsig d | CLinebreak => [] end.
  Definition cwsig (it : chain_item) : bool :=
    match it with CBody d | COp d | CComment d | CAttached d => wsig d | CLinebreak => true end.
  Definition csigs (its : list chain_item) : str := concat (map csig its).
  Lemma csigs_app a b : csigs (a ++ b) = csigs a ++ csigs b.
  Proof. unfold csigs. rewrite map_app, concat_app. reflexivity. Qed.

  Lemma add_to_last_sig ds d : ds <> [] -> dsigs (add_to_last ds d) = dsigs ds ++ dsig d.
  Proof.
    intros Hne. unfold add_to_last. destruct (rev ds) as [|x r] eqn:Er.
    - exfalso. apply Hne. rewrite <- (rev_involutive ds), Er. reflexivity.
    - assert (E : ds = rev r ++ [x]) by (rewrite <- (rev_involutive ds), Er; reflexivity).
      rewrite E, !dsigs_app. unfold dsigs at 2 4. cbn. rewrite dsig_append, !app_nil_r, app_assoc. reflexivity.
  Qed.
  Lemma add_to_last_wsig ds d :
    Forall (fun x => wsig x = true) ds -> wsig d = true -> Forall (fun x => wsig x = true) (add_to_last ds d).
  Proof.
    intros H Hd. unfold add_to_last. destruct (rev ds) as [|x r] eqn:Er; [constructor|].
    assert (E : ds = rev r ++ [x]) by (rewrite <- (rev_involutive ds), Er; reflexivity).
    rewrite E in H. apply Forall_app in H. destruct H as [Hr Hx]. inversion Hx; subst.
    apply Forall_app. split; [exact Hr|]. constructor; [apply wsig_append; assumption|constructor].
  Qed.
  Lemma snoc_ne {A} (l : list A) y : l ++ [y] <> [].
  Proof. intros E. apply app_eq_nil in E. destruct E; discriminate. Qed.

  (* `attached_ok` (ListProofs): an attached comment is glued to the document before it, so there must be one;
     ListProofs.chain_process_attached_ok shows it of every chain the builder produces *)
  Theorem chain_print_sig ch sty d :
    attached_ok false (ch_items ch) = true ->
    chain_print_doc swidth tab ch sty = Ok d ->
    dsig d = csigs (ch_items ch) /\ (Forall (fun it => cwsig it = true) (ch_items ch) -> wsig d = true).
  Proof.
    unfold chain_print_doc. intros Hok.
    match goal with |- context [fold_left ?f (ch_items ch) ?a] => set (step := f); set (init := a) end.
    assert (Hop : forall (b : bool), dsig (if b then line else line_) = []) by (intros []; reflexivity).
    assert (Hopw : forall (b : bool), wsig (if b then line else line_) = true) by (intros []; reflexivity).
    assert (Hsp : forall (b : bool) c, dsig (if b then append space c else c) = dsig c)
      by (intros [] c; rewrite ?dsig_append; reflexivity).
    assert (Hspw : forall (b : bool) c, wsig c = true -> wsig (if b then append space c else c) = true)
      by (intros [] c Hc; [apply wsig_append; [reflexivity|exact Hc]|exact Hc]).
    assert (Hinv : forall items docs hb leading sa seen,
              (leading = false -> docs <> []) -> (seen = true -> docs <> []) -> attached_ok seen items = true ->
              dsigs (fst (fst (fst (fold_left step items (docs, hb, leading, sa))))) = dsigs docs ++ csigs items /\
              (Forall (fun x => wsig x = true) docs -> Forall (fun it => cwsig it = true) items ->
               Forall (fun x => wsig x = true) (fst (fst (fst (fold_left step items (docs, hb, leading, sa)))))) /\
              (docs <> [] -> fst (fst (fst (fold_left step items (docs, hb, leading, sa)))) <> [])).
    { induction items as [|it items IH]; intros docs hb leading sa seen Hl Hs Ha; cbn [fold_left].
      - cbn. rewrite app_nil_r. auto.
      - unfold step at 2 4 6. cbn beta iota.
        assert (Ecs : forall x, csigs (x :: items) = csig x ++ csigs items) by reflexivity.
        destruct it as [body|op|cmt|cmt|]; cbn [attached_ok] in Ha; rewrite Ecs; cbn [csig].
        + destruct leading.
          * destruct (IH (docs ++ [body]) hb false true true (fun _ => snoc_ne _ _) (fun _ => snoc_ne _ _) Ha) as (E & W & N).
            rewrite E, dsigs_app, dsigs_one, <- app_assoc. split; [reflexivity|split].
            -- intros Hd Hi. inversion Hi; subst. apply W; [|assumption]. apply Forall_app. split; [exact Hd|]. constructor; [assumption|constructor].
            -- intros _. apply N. apply snoc_ne.
          * pose proof (Hl eq_refl) as Hne.
            destruct (IH (add_to_last docs body) hb false true true (fun _ => add_to_last_nonempty' _ _ Hne) (fun _ => add_to_last_nonempty' _ _ Hne) Ha) as (E & W & N).
            rewrite E, add_to_last_sig, <- app_assoc by exact Hne. split; [reflexivity|split].
            -- intros Hd Hi. inversion Hi; subst. apply W; [|assumption]. apply add_to_last_wsig; assumption.
            -- intros _. apply N. apply add_to_last_nonempty'. exact Hne.
        + match goal with |- context [fold_left step items (?D ++ [?O], _, _, _)] => set (d1 := D); set (o1 := O) end.
          destruct (IH (d1 ++ [o1]) false false false true (fun _ => snoc_ne _ _) (fun _ => snoc_ne _ _) Ha) as (E & W & N).
          assert (Ed1 : dsigs d1 = dsigs docs).
          { unfold d1. match goal with |- dsigs (if ?b then _ else _) = _ => destruct b end; [|reflexivity].
            rewrite dsigs_app, dsigs_one, Hop, app_nil_r. reflexivity. }
          assert (Eo1 : dsig o1 = dsig op).
          { unfold o1. destruct (cs_space_around_op sty); [rewrite dsig_append, dsig_text; cbn; rewrite app_nil_r|]; reflexivity. }
          rewrite E, dsigs_app, Ed1, dsigs_one, Eo1, <- app_assoc. split; [reflexivity|split].
          * intros Hd Hi. inversion Hi; subst. apply W; [|assumption]. apply Forall_app. split.
            -- unfold d1. match goal with |- Forall _ (if ?b then _ else _) => destruct b end; [|exact Hd]. apply Forall_app. split; [exact Hd|]. constructor; [apply Hopw|constructor].
            -- constructor; [|constructor]. unfold o1. destruct (cs_space_around_op sty); [apply wsig_append; [assumption|apply wsig_text]|assumption].
          * intros _. apply N. apply snoc_ne.
        + destruct leading.
          * destruct (IH (docs ++ [cmt]) hb false true true (fun _ => snoc_ne _ _) (fun _ => snoc_ne _ _) Ha) as (E & W & N).
            rewrite E, dsigs_app, dsigs_one, <- app_assoc. split; [reflexivity|split].
            -- intros Hd Hi. inversion Hi; subst. apply W; [|assumption]. apply Forall_app. split; [exact Hd|]. constructor; [assumption|constructor].
            -- intros _. apply N. apply snoc_ne.
          * pose proof (Hl eq_refl) as Hne.
            match goal with |- context [add_to_last docs ?C] => set (c1 := C) end.
            destruct (IH (add_to_last docs c1) hb false true true (fun _ => add_to_last_nonempty' _ _ Hne) (fun _ => add_to_last_nonempty' _ _ Hne) Ha) as (E & W & N).
            rewrite E, add_to_last_sig by exact Hne. unfold c1. rewrite Hsp, <- app_assoc. split; [reflexivity|split].
            -- intros Hd Hi. inversion Hi; subst. apply W; [|assumption]. apply add_to_last_wsig; [exact Hd|]. apply Hspw. assumption.
            -- intros _. apply N. apply add_to_last_nonempty'. exact Hne.
        + apply andb_prop in Ha. destruct Ha as [Hseen Ha]. pose proof (Hs Hseen) as Hne.
          match goal with |- context [add_to_last docs ?C] => set (c1 := C) end.
          destruct (IH (add_to_last docs c1) hb leading sa seen (fun _ => add_to_last_nonempty' _ _ Hne) (fun _ => add_to_last_nonempty' _ _ Hne) Ha) as (E & W & N).
          rewrite E, add_to_last_sig by exact Hne. unfold c1. rewrite Hsp, <- app_assoc. split; [reflexivity|split].
          * intros Hd Hi. inversion Hi; subst. apply W; [|assumption]. apply add_to_last_wsig; [exact Hd|]. apply Hspw. assumption.
          * intros _. apply N. apply add_to_last_nonempty'. exact Hne.
        + destruct (IH (docs ++ [hardline]) true true sa true (fun _ => snoc_ne _ _) (fun _ => snoc_ne _ _) Ha) as (E & W & N).
          rewrite E, dsigs_app, dsigs_one. cbn [dsig hardline]. rewrite app_nil_r. split; [reflexivity|split].
          * intros Hd Hi. inversion Hi; subst. apply W; [|assumption]. apply Forall_app. split; [exact Hd|]. constructor; [reflexivity|constructor].
          * intros _. apply N. apply snoc_ne. }
    unfold init. destruct (Hinv (ch_items ch) [] false true true false (fun E => match Bool.diff_true_false E with end)
                             (fun E => match Bool.diff_false_true E with end) Hok) as (E & W & _).
    destruct (fold_left step (ch_items ch) ([], false, true, true)) as [[[docs hb] ld] sa]. cbn [fst] in E, W.
    destruct docs as [|first follow]; [discriminate|]. intros H. inversion H; subst. clear H.
    cbn in E. unfold dsigs in E. cbn in E. split.
    - destruct (_ && _ && _); rewrite dsig_group, dsig_append, ?dsig_nest, dsig_concat_docs; exact E.
    - intros Hi. specialize (W (Forall_nil _) Hi). inversion W; subst.
      destruct (_ && _ && _); rewrite wsig_group; apply wsig_append; auto; rewrite ?wsig_nest; apply wsig_concat_docs; assumption.
  Qed.

  (* ---------------- plain ---------------- *)
  Definition psig (it : plain_item) : str :=
    match it with PItem d | PLineComment d | PBlockComment d => dsig d | PComma | PLinebreak _ => [] end.
  Definition pwsig (it : plain_item) : bool :=
    match it with PItem d | PLineComment d | PBlockComment d => wsig d | PComma | PLinebreak _ => true end.
  Definition psigs (its : list plain_item) : str := concat (map psig its).
  Lemma psigs_app a b : psigs (a ++ b) = psigs a ++ psigs b.
  Proof. unfold psigs. rewrite map_app, concat_app. reflexivity. Qed.

  Theorem plain_print_sig items ml :
    dsig (plain_print_doc swidth items ml) = psigs items /\
    (Forall (fun it => pwsig it = true) items -> wsig (plain_print_doc swidth items ml) = true).
  Proof.
    unfold plain_print_doc.
    match goal with |- context [fold_left ?f items ?a] => set (step := f) end.
    assert (G : forall its f, dsig (f_doc (fold_left step its f)) = dsig (f_doc f) ++ psigs its /\
                              (wsig (f_doc f) = true -> Forall (fun it => pwsig it = true) its -> wsig (f_doc (fold_left step its f)) = true)).
    { induction its as [|it its IH]; intros f; cbn [fold_left]; [cbn; rewrite app_nil_r; auto|].
      destruct (IH (step f it)) as [E W]. rewrite E. unfold psigs. cbn [map concat]. rewrite app_assoc. split.
      - f_equal. unfold step. destruct it; rewrite flow_push_doc_sig; cbn [psig]; rewrite ?dsig_text, ?dsig_repeat_quiet; reflexivity.
      - intros Hf Hi. inversion Hi; subst. apply W; [|assumption]. unfold step.
        destruct it; apply flow_push_doc_wsig; auto; try apply wsig_text; try (apply wsig_repeat; reflexivity). }
    destruct (G items flow_new) as [E W]. cbn in E. cbv zeta. split.
    - destruct ml; [rewrite dsig_enclose; cbn; rewrite app_nil_r|]; exact E.
    - intros Hi. specialize (W eq_refl Hi). destruct ml; [apply wsig_enclose; auto|exact W].
  Qed.
End SigLayout.
