(* C19 — import items are reordered only on request, and then only permuted. *)
From TV Require Import Conv ImportProofs.
From Coq Require Import Permutation Sorted.
From TV.gen Require Import CliGen.

(* The order in which convert_import_items hands the item nodes to the list stylist is
   `import_items_order cfg nodes`; the flag occurs nowhere else in the converter model. *)

Theorem C19_off_keeps_source_order :
  forall cfg nodes, reorder_import_items cfg = false -> import_items_order cfg nodes = nodes.
Proof. exact import_order_off. Qed.
Check C19_off_keeps_source_order :
  forall cfg nodes, reorder_import_items cfg = false -> import_items_order cfg nodes = nodes.
Print Assumptions C19_off_keeps_source_order.

Theorem C19_on_is_permutation :
  forall cfg nodes, Permutation (import_items_order cfg nodes) nodes.
Proof. exact import_order_permutation. Qed.
Check C19_on_is_permutation : forall cfg nodes, Permutation (import_items_order cfg nodes) nodes.
Print Assumptions C19_on_is_permutation.

Theorem C19_on_sorted_or_kept :
  forall cfg nodes, import_items_order cfg nodes = nodes \/ StronglySorted key_le (import_items_order cfg nodes).
Proof. exact import_order_sorted_or_kept. Qed.
Check C19_on_sorted_or_kept :
  forall cfg nodes, import_items_order cfg nodes = nodes \/ StronglySorted key_le (import_items_order cfg nodes).
Print Assumptions C19_on_sorted_or_kept.

Theorem C19_comment_keeps_order :
  forall cfg nodes, existsb (fun b => contains_comment (bt b)) nodes = true -> import_items_order cfg nodes = nodes.
Proof. exact import_order_comment. Qed.
Check C19_comment_keeps_order :
  forall cfg nodes, existsb (fun b => contains_comment (bt b)) nodes = true -> import_items_order cfg nodes = nodes.
Print Assumptions C19_comment_keeps_order.

Theorem C19_duplicate_keeps_order :
  forall cfg nodes, no_dup_names nodes [] = false -> import_items_order cfg nodes = nodes.
Proof. exact import_order_duplicate. Qed.
Check C19_duplicate_keeps_order :
  forall cfg nodes, no_dup_names nodes [] = false -> import_items_order cfg nodes = nodes.
Print Assumptions C19_duplicate_keeps_order.

(* the option defaults to off (regenerated from config.rs / cli.rs on every run) *)
Theorem C19_default_off : reorder_import_items cfg_default = false /\ sa_reorder_import_items cli_default_style = false.
Proof. split; reflexivity. Qed.
Print Assumptions C19_default_off.

(* non-vacuity: `b, a` is sorted to `a, b` with the flag on and kept with it off *)
Definition leaf_item (c : N) : bundle :=
  Bundle (Inner KImportItemPath [Leaf KIdent [c] no_attrs] no_attrs) (fun _ => panic SBadRequest) [].
Definition cfg_on : config := {| tab_spaces := 2; max_width := 80; blank_lines_upper_bound := 2; reorder_import_items := true |}.
Example C19_example_on : map (fun b => into_text (bt b)) (import_items_order cfg_on [leaf_item 98; leaf_item 97]) = [[97]; [98]].
Proof. vm_compute. reflexivity. Qed.
Example C19_example_off : map (fun b => into_text (bt b)) (import_items_order cfg_default [leaf_item 98; leaf_item 97]) = [[98]; [97]].
Proof. vm_compute. reflexivity. Qed.

(* the order in which the items are laid out is `import_items_final may_reorder nodes`, where may_reorder is false
   as soon as a comment sits among the import's other children (between the keyword, the path, the colon and the
   items): such an import keeps its order whatever the flag says *)
Theorem C19_comment_outside_list_keeps_order :
  forall cfg nodes, import_items_final cfg false nodes = nodes.
Proof. reflexivity. Qed.
Theorem C19_final_is_permutation :
  forall cfg mr nodes, Permutation (import_items_final cfg mr nodes) nodes.
Proof. intros cfg mr nodes. unfold import_items_final. destruct mr; [apply import_order_permutation|apply Permutation_refl]. Qed.
Theorem C19_final_off_keeps_source_order :
  forall cfg mr nodes, reorder_import_items cfg = false -> import_items_final cfg mr nodes = nodes.
Proof. intros cfg mr nodes H. unfold import_items_final. destruct mr; [apply import_order_off; exact H|reflexivity]. Qed.
Print Assumptions C19_final_is_permutation.
Print Assumptions C19_final_off_keeps_source_order.
