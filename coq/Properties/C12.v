(* C12 — indentation is governed solely by the configured indent unit. *)
From TV Require Import Sym SymProofs WideProofs Conv Format TabParam.

(* Reading of the property over the model. For a symbolic document D (nests a * U + b) and any unit u:
   when no line needs wrapping, rendering the instance `inst u D` emits exactly the instances of the symbolic
   renderer's events: the same text atoms whatever the unit, and after every layout line break a * u + b blanks
   with (a, b) independent of the unit. A line with b = 0 is indented by a whole multiple of the unit; lines with
   b <> 0 arise only under Align (comment continuation lines) and lines inside a text atom (strings, raw text,
   verbatim regions) are not produced by a line-break event at all: these are the property's exemptions.
   That the converter's documents for any two non-zero units ARE instances of one symbolic document is
   `C12_converter_parametric_in_unit` below (TabRel.v, TabProofs.v: a relational proof over every stylist and every
   converter); the per-case evaluation of the extracted `sym_of`, `inst` and `render_wide` (C12 check, obligations
   K2-scale and K3-wide) remains as the tie of these theorems to the implementation's documents. *)

Theorem C12_symbolic_indentation :
  forall u (D : sdoc) es,
    render_sym_events D = Some es ->
    render_wide_events (inst u D) = Some (map (inst_event u) es).
Proof. exact render_wide_events_inst. Qed.
Check C12_symbolic_indentation :
  forall u (D : sdoc) es,
    render_sym_events D = Some es ->
    render_wide_events (inst u D) = Some (map (inst_event u) es).
Print Assumptions C12_symbolic_indentation.

Theorem C12_text_independent_of_unit : forall u s, inst_event u (SEText s) = EText s.
Proof. exact inst_event_text. Qed.
Print Assumptions C12_text_independent_of_unit.

Theorem C12_layout_line_is_multiple : forall u a, inst_event u (SENewline (a, 0)) = ENewline (a * u).
Proof. exact inst_event_newline. Qed.
Print Assumptions C12_layout_line_is_multiple.

Theorem C12_sym_of_sound : forall d2 d3 D, sym_of d2 d3 = Some D -> inst 2 D = d2 /\ inst 3 D = d3.
Proof. exact sym_of_sound. Qed.
Check C12_sym_of_sound : forall d2 d3 D, sym_of d2 d3 = Some D -> inst 2 D = d2 /\ inst 3 D = d3.
Print Assumptions C12_sym_of_sound.

(* non-vacuity: group(nest U (hardline "a")) then hardline "b": indentations 1*u and 0 *)
Definition ex_sym : sdoc :=
  SAppend (SNest 1 0 (SAppend SHardline (SText [97]))) (SAppend SHardline (SText [98])).
Example C12_example_sym : render_sym_events ex_sym = Some [SENewline (1, 0); SEText [97]; SENewline (0, 0); SEText [98]].
Proof. vm_compute. reflexivity. Qed.
Example C12_example_inst4 : render_wide (inst 4 ex_sym) = Some [10; 32; 32; 32; 32; 97; 10; 98].
Proof. vm_compute. reflexivity. Qed.

(* (theorem B) "a width large enough that no line needs wrapping" made computable: when the width is at least
   `room d` (every text width plus every positive nest of the document) pretty's renderer equals the wide renderer,
   so the statements above are statements about the real renderer.  The check evaluates `room` on every document
   it dumps and compares it with the width it formats at. *)
Theorem C12_wide_enough :
  forall width d, room d <= width -> render width d = render_wide d.
Proof. exact render_wide_total_eq. Qed.
Check C12_wide_enough : forall width d, room d <= width -> render width d = render_wide d.
Print Assumptions C12_wide_enough.

(* both halves: the real renderer, at any width with room for it, lays the instance for the unit u out as the
   instance of the one symbolic layout *)
Theorem C12_real_renderer_scales :
  forall u (D : sdoc) es width,
    render_sym_events D = Some es -> room (inst u D) <= width ->
    render_events width (inst u D) = Some (map (inst_event u) es).
Proof. exact render_events_inst. Qed.
Check C12_real_renderer_scales :
  forall u (D : sdoc) es width,
    render_sym_events D = Some es -> room (inst u D) <= width ->
    render_events width (inst u D) = Some (map (inst_event u) es).
Print Assumptions C12_real_renderer_scales.

(* (theorem C) the converter is parametric in the indent unit: for two non-zero units the documents built for one tree
   are the instances of ONE symbolic document, with the same number of conversions; a panic would be at the same
   site.  The unit 0 is excluded because the builder's `nest 0 d` is `d`: the shape of the document changes (the
   rendering does not; K2/K5 cover tab_spaces = 0 case by case). *)
Theorem C12_converter_parametric_in_unit :
  forall swidth (c : config) t1 t2, t1 <> 0 -> t2 <> 0 -> forall tree,
    match convert_root swidth (with_tab c t1) tree, convert_root swidth (with_tab c t2) tree with
    | Ok (d1, n1), Ok (d2, n2) => n1 = n2 /\ exists D, d1 = inst t1 D /\ d2 = inst t2 D
    | Panic s1, Panic s2 => s1 = s2
    | _, _ => False
    end.
Proof. exact convert_root_parametric. Qed.
Check C12_converter_parametric_in_unit :
  forall swidth (c : config) t1 t2, t1 <> 0 -> t2 <> 0 -> forall tree,
    match convert_root swidth (with_tab c t1) tree, convert_root swidth (with_tab c t2) tree with
    | Ok (d1, n1), Ok (d2, n2) => n1 = n2 /\ exists D, d1 = inst t1 D /\ d2 = inst t2 D
    | Panic s1, Panic s2 => s1 = s2
    | _, _ => False
    end.
Print Assumptions C12_converter_parametric_in_unit.

(* the property over the model, all three theorems together: whatever the tree, the configuration and the two
   non-zero units, at any widths with room the real renderer lays both documents out as the instances of one
   symbolic layout: the same text atoms, and after each layout line break a*u + b blanks with (a, b) independent
   of the unit *)
Theorem C12_indentation_scales :
  forall swidth (c : config) t1 t2, t1 <> 0 -> t2 <> 0 -> forall tree d1 n,
    convert_root swidth (with_tab c t1) tree = Ok (d1, n) ->
    exists D d2,
      convert_root swidth (with_tab c t2) tree = Ok (d2, n) /\ d1 = inst t1 D /\ d2 = inst t2 D /\
      forall es w1 w2,
        render_sym_events D = Some es -> room d1 <= w1 -> room d2 <= w2 ->
        render_events w1 d1 = Some (map (inst_event t1) es) /\
        render_events w2 d2 = Some (map (inst_event t2) es).
Proof. exact indentation_scales. Qed.
Check C12_indentation_scales :
  forall swidth (c : config) t1 t2, t1 <> 0 -> t2 <> 0 -> forall tree d1 n,
    convert_root swidth (with_tab c t1) tree = Ok (d1, n) ->
    exists D d2,
      convert_root swidth (with_tab c t2) tree = Ok (d2, n) /\ d1 = inst t1 D /\ d2 = inst t2 D /\
      forall es w1 w2,
        render_sym_events D = Some es -> room d1 <= w1 -> room d2 <= w2 ->
        render_events w1 d1 = Some (map (inst_event t1) es) /\
        render_events w2 d2 = Some (map (inst_event t2) es).
Print Assumptions C12_indentation_scales.

(* non-vacuity: `#[⏎a⏎]` is converted, for the units 2 and 4, to the instances of one symbolic document whose only
   nest is 1*U + 0 *)
Definition ex_block : tree :=
  Inner KMarkup [Leaf KHash [35] no_attrs;
    Inner KContentBlock [Leaf KLeftBracket [91] no_attrs;
      Inner KMarkup [Leaf KSpace [10] no_attrs; Leaf KText [97] no_attrs; Leaf KSpace [10] no_attrs] no_attrs;
      Leaf KRightBracket [93] no_attrs] no_attrs] no_attrs.
Definition ex_block_sym : sdoc :=
  SAppend (SText [35])
    (SAppend (SAppend (SText [91]) (SGroup (SNest 1 0 (SAppend (SAppend SHardline (SText [97])) SHardline)))) (SText [93])).
Example C12_example_parametric :
  convert_root (fun s => N.of_nat (length s)) (with_tab CliGen.cfg_default 2) ex_block = Ok (inst 2 ex_block_sym, 3) /\
  convert_root (fun s => N.of_nat (length s)) (with_tab CliGen.cfg_default 4) ex_block = Ok (inst 4 ex_block_sym, 3).
Proof. vm_compute. split; reflexivity. Qed.
