(* C12 — indentation is governed solely by the configured indent unit. *)
From TV Require Import Sym SymProofs WideProofs.

(* Reading of the property over the model. For a symbolic document D (nests a * U + b) and any unit u:
   when no line needs wrapping, rendering the instance `inst u D` emits exactly the instances of the symbolic
   renderer's events: the same text atoms whatever the unit, and after every layout line break a * u + b blanks
   with (a, b) independent of the unit. A line with b = 0 is indented by a whole multiple of the unit; lines with
   b <> 0 arise only under Align (comment continuation lines) and lines inside a text atom (strings, raw text,
   verbatim regions) are not produced by a line-break event at all: these are the property's exemptions.
   That the converter's documents for the units 1..8 ARE instances of one symbolic document, and that the wide
   renderer agrees with the real one at the width used, is checked on every case by the extracted `sym_of`,
   `inst` and `render_wide` (C12 check, obligations K2-scale and K3-wide). *)

Theorem C12_symbolic_indentation :
  forall u (D : sdoc) es,
    render_sym_events D = Some es ->
    render_wide_events (inst u D) = Some (map (inst_event u) es).
Proof. exact render_wide_events_inst. Qed.
Check C12_symbolic_indentation :
  forall u (D : sdoc) es,
    render_sym_events D = Some es ->
    render_wide_events (inst u D) = Some (map (inst_event u) es).
Print Assumptions C12_symbolic_indentation.

Theorem C12_text_independent_of_unit : forall u s, inst_event u (SEText s) = EText s.
Proof. exact inst_event_text. Qed.
Print Assumptions C12_text_independent_of_unit.

Theorem C12_layout_line_is_multiple : forall u a, inst_event u (SENewline (a, 0)) = ENewline (a * u).
Proof. exact inst_event_newline. Qed.
Print Assumptions C12_layout_line_is_multiple.

Theorem C12_sym_of_sound : forall d2 d3 D, sym_of d2 d3 = Some D -> inst 2 D = d2 /\ inst 3 D = d3.
Proof. exact sym_of_sound. Qed.
Check C12_sym_of_sound : forall d2 d3 D, sym_of d2 d3 = Some D -> inst 2 D = d2 /\ inst 3 D = d3.
Print Assumptions C12_sym_of_sound.

(* non-vacuity: group(nest U (hardline "a")) then hardline "b": indentations 1*u and 0 *)
Definition ex_sym : sdoc :=
  SAppend (SNest 1 0 (SAppend SHardline (SText [97]))) (SAppend SHardline (SText [98])).
Example C12_example_sym : render_sym_events ex_sym = Some [SENewline (1, 0); SEText [97]; SENewline (0, 0); SEText [98]].
Proof. vm_compute. reflexivity. Qed.
Example C12_example_inst4 : render_wide (inst 4 ex_sym) = Some [10; 32; 32; 32; 32; 97; 10; 98].
Proof. vm_compute. reflexivity. Qed.

(* (theorem B) "a width large enough that no line needs wrapping" made computable: when the width is at least
   `room d` (every text width plus every positive nest of the document) pretty's renderer equals the wide renderer,
   so the statements above are statements about the real renderer.  The check evaluates `room` on every document
   it dumps and compares it with the width it formats at. *)
Theorem C12_wide_enough :
  forall width d, room d <= width -> render width d = render_wide d.
Proof. exact render_wide_total_eq. Qed.
Check C12_wide_enough : forall width d, room d <= width -> render width d = render_wide d.
Print Assumptions C12_wide_enough.

(* both halves: the real renderer, at any width with room for it, lays the instance for the unit u out as the
   instance of the one symbolic layout *)
Theorem C12_real_renderer_scales :
  forall u (D : sdoc) es width,
    render_sym_events D = Some es -> room (inst u D) <= width ->
    render_events width (inst u D) = Some (map (inst_event u) es).
Proof. exact render_events_inst. Qed.
Check C12_real_renderer_scales :
  forall u (D : sdoc) es width,
    render_sym_events D = Some es -> room (inst u D) <= width ->
    render_events width (inst u D) = Some (map (inst_event u) es).
Print Assumptions C12_real_renderer_scales.
