(* C08 — prose is left untouched: structure of the document built for every Markup node. *)
From TV Require Import Conv Format Render RenderProofs SeqProofs MarkupProofs MathProofs ConvProofs.

Section Full.
  Variable parse : str -> tree.
  Variable obs_markup : tree -> list (list N).
  Variable swidth : str -> N.
  (* not proved: the re-parsed half needs the parser *)
  Definition C08_full : Prop :=
    forall cfg src out n,
      erroneous (parse src) = false -> format_source swidth cfg (parse src) = FOk out n ->
      obs_markup (parse out) = obs_markup (parse src).
End Full.

(* (1) For every Markup node, every context and whatever its children convert to: in every layout of
   the document (hence at every width) the node contributes
     start ++ line_1 ++ ... ++ line_k ++ end
   where start/end hold only blanks and line breaks, the lines are the source's lines, each line is the
   concatenation of its children's contributions in order with every interior Space child contributing
   exactly one U+0020 atom and every Text child its exact text, and a line is followed by exactly
   `breaks` mandatory line breaks (1 for a line break, the Parbreak's count for a paragraph break). *)
Theorem C08_markup_structure :
  forall swidth t kids c sc n d n' x,
    is_only_one_and kids (fun b => kind_eqb (bk b) KSpace) = false ->
    convert_markup_impl swidth t kids c sc n = Ok (d, n') -> seqs d x ->
    exists xstart xlines xend,
      x = xstart ++ concat xlines ++ xend /\ ws_only xstart /\ ws_only xend /\
      Forall2 (line_atoms swidth) (mr_lines (collect_markup_repr kids)) xlines.
Proof. exact convert_markup_atoms. Qed.
Check C08_markup_structure :
  forall swidth t kids c sc n d n' x,
    is_only_one_and kids (fun b => kind_eqb (bk b) KSpace) = false ->
    convert_markup_impl swidth t kids c sc n = Ok (d, n') -> seqs d x ->
    exists xstart xlines xend,
      x = xstart ++ concat xlines ++ xend /\ ws_only xstart /\ ws_only xend /\
      Forall2 (line_atoms swidth) (mr_lines (collect_markup_repr kids)) xlines.
Print Assumptions C08_markup_structure.

(* (2) the lines are the source's lines: the nodes of all lines, in order, are the children of the Markup
   node with only Space / Parbreak tokens taken out, and a Space that stays inside a line holds no line
   break (so a line break is never turned into a blank) *)
Theorem C08_lines_are_source_lines :
  forall kids, sub_ws (all_nodes (mr_lines (collect_markup_repr kids))) kids /\
               kept_spaces_ok (all_nodes (mr_lines (collect_markup_repr kids))).
Proof. exact repr_lines_are_source_lines. Qed.
Check C08_lines_are_source_lines :
  forall kids, sub_ws (all_nodes (mr_lines (collect_markup_repr kids))) kids /\
               kept_spaces_ok (all_nodes (mr_lines (collect_markup_repr kids))).
Print Assumptions C08_lines_are_source_lines.

(* (3) those atoms are what the renderer emits, in order, at every width *)
Theorem C08_width_independent :
  forall width d es, render_events width d = Some es -> seqs d (map atom_of_event es).
Proof. exact render_atoms. Qed.
Print Assumptions C08_width_independent.

(* non-vacuity: "a  b" + line break + "c" stays two lines with single blanks, at width 0 *)
Definition ex_prose : tree :=
  Inner KMarkup [Leaf KText [97] no_attrs; Leaf KSpace [32;32] no_attrs; Leaf KText [98] no_attrs;
                 Leaf KSpace [10] no_attrs; Leaf KText [99] no_attrs] no_attrs.
Example C08_example :
  exists n, format_source (fun s => N.of_nat (length s))
              {| tab_spaces := 2; max_width := 0; blank_lines_upper_bound := 2; reorder_import_items := false |} ex_prose
            = FOk [97;32;98;10;99;10] n.
Proof. eexists. vm_compute. reflexivity. Qed.
