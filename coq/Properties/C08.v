(* C08 — prose is left untouched: structure of the document built for every Markup node. *)
From TV Require Import Conv Format Render RenderProofs SeqProofs MarkupProofs MathProofs ConvProofs Layout SafeProofs Unbreak.

Section Full.
  Variable parse : str -> tree.
  Variable obs_markup : tree -> list (list N).
  Variable swidth : str -> N.
  (* not proved: the re-parsed half needs the parser *)
  Definition C08_full : Prop :=
    forall cfg src out n,
      erroneous (parse src) = false -> format_source swidth cfg (parse src) = FOk out n ->
      obs_markup (parse out) = obs_markup (parse src).
End Full.

(* (1) For every Markup node, every context and whatever its children convert to: in every layout of
   the document (hence at every width) the node contributes
     start ++ line_1 ++ ... ++ line_k ++ end
   where start/end hold only blanks and line breaks, the lines are the source's lines, each line is the
   concatenation of its children's contributions in order with every interior Space child contributing
   exactly one U+0020 atom and every Text child its exact text, and a line is followed by exactly
   `breaks` mandatory line breaks (1 for a line break, the Parbreak's count for a paragraph break). *)
Theorem C08_markup_structure :
  forall swidth t kids c sc n d n' x,
    is_only_one_and kids (fun b => kind_eqb (bk b) KSpace) = false ->
    convert_markup_impl swidth t kids c sc n = Ok (d, n') -> seqs d x ->
    exists xstart xlines xend,
      x = xstart ++ concat xlines ++ xend /\ ws_only xstart /\ ws_only xend /\
      Forall2 (line_atoms swidth) (mr_lines (collect_markup_repr kids)) xlines.
Proof. exact convert_markup_atoms. Qed.
Check C08_markup_structure :
  forall swidth t kids c sc n d n' x,
    is_only_one_and kids (fun b => kind_eqb (bk b) KSpace) = false ->
    convert_markup_impl swidth t kids c sc n = Ok (d, n') -> seqs d x ->
    exists xstart xlines xend,
      x = xstart ++ concat xlines ++ xend /\ ws_only xstart /\ ws_only xend /\
      Forall2 (line_atoms swidth) (mr_lines (collect_markup_repr kids)) xlines.
Print Assumptions C08_markup_structure.

(* (2) the lines are the source's lines: the nodes of all lines, in order, are the children of the Markup
   node with only Space / Parbreak tokens taken out, and a Space that stays inside a line holds no line
   break (so a line break is never turned into a blank) *)
Theorem C08_lines_are_source_lines :
  forall kids, sub_ws (all_nodes (mr_lines (collect_markup_repr kids))) kids /\
               kept_spaces_ok (all_nodes (mr_lines (collect_markup_repr kids))).
Proof. exact repr_lines_are_source_lines. Qed.
Check C08_lines_are_source_lines :
  forall kids, sub_ws (all_nodes (mr_lines (collect_markup_repr kids))) kids /\
               kept_spaces_ok (all_nodes (mr_lines (collect_markup_repr kids))).
Print Assumptions C08_lines_are_source_lines.

(* (3) those atoms are what the renderer emits, in order, at every width *)
Theorem C08_width_independent :
  forall width d es, render_events width d = Some es -> seqs d (map atom_of_event es).
Proof. exact render_atoms. Qed.
Print Assumptions C08_width_independent.

(* non-vacuity: "a  b" + line break + "c" stays two lines with single blanks, at width 0 *)
Definition ex_prose : tree :=
  Inner KMarkup [Leaf KText [97] no_attrs; Leaf KSpace [32;32] no_attrs; Leaf KText [98] no_attrs;
                 Leaf KSpace [10] no_attrs; Leaf KText [99] no_attrs] no_attrs.
Example C08_example :
  exists n, format_source (fun s => N.of_nat (length s))
              {| tab_spaces := 2; max_width := 0; blank_lines_upper_bound := 2; reorder_import_items := false |} ex_prose
            = FOk [97;32;98;10;99;10] n.
Proof. eexists. vm_compute. reflexivity. Qed.

(* ---- no rewrapping, the list half (Unbreak.v) ----
   A document without hardline and flat_alt is printed on one line at every width.  Where breaks are suppressed (a
   markup line that holds text, everything below a Math node: `c_supp c`) a list written on one source line
   (`a_multiline = false`) that holds no comment is such a document as soon as its items are: array, dictionary,
   destructuring, parameters and - since repair F44 - the items of an import; an unbreakable document is rigid (no
   flat_alt), and a rigid document has one layout whatever the width.  What is not proved is the hereditary statement
   for every converter (`C08_no_rewrapping_full`: below a suppressed context a tree without comments and without a node
   written on several lines converts to a rigid document). *)
Definition C08_no_rewrapping_full : Prop :=
  forall swidth cfg t c r n d n',
    c_supp c = true -> calm t = true ->
    call (build swidth cfg t) r n = Ok (d, n') -> rigid d = true.

(* a document without flat_alt has one layout: the same atoms, line breaks included, at every width *)
Theorem C08_rigid_document_is_width_independent :
  forall w1 w2 d es1 es2,
    rigid d = true -> render_events w1 d = Some es1 -> render_events w2 d = Some es2 ->
    map atom_of_event es1 = map atom_of_event es2.
Proof. exact rigid_width_independent. Qed.
Check C08_rigid_document_is_width_independent :
  forall w1 w2 d es1 es2,
    rigid d = true -> render_events w1 d = Some es1 -> render_events w2 d = Some es2 ->
    map atom_of_event es1 = map atom_of_event es2.
Print Assumptions C08_rigid_document_is_width_independent.

Theorem C08_unbreakable_document_is_one_line :
  forall width d es, unbreakable d = true -> render_events width d = Some es ->
    Forall (fun e => match e with EText _ => True | ENewline _ => False end) es.
Proof. exact unbreakable_renders_on_one_line. Qed.
Check C08_unbreakable_document_is_one_line :
  forall width d es, unbreakable d = true -> render_events width d = Some es ->
    Forall (fun e => match e with EText _ => True | ENewline _ => False end) es.
Print Assumptions C08_unbreakable_document_is_one_line.

(* a flow without comments joins its pieces with single blanks (named and keyed pairs, spreads, unary operations,
   let bindings, show rules, conditionals ..., the items of an import) *)
Theorem C08_flow_without_comment_is_one_line :
  forall swidth (S : Type) c kids (s0 : S) producer,
    Forall (fun n => is_comment_b n = false) kids ->
    (forall s c' n, c_supp c' = c_supp c -> In n kids ->
       post (producer s c' n) (fun r => match snd r with Some it => unbreakable (fi_doc it) = true | None => True end)) ->
    post (flow_like_iter swidth c kids s0 producer) (fun d => unbreakable d = true).
Proof. exact flow_like_iter_unb. Qed.
Print Assumptions C08_flow_without_comment_is_one_line.

(* a list stylist that sees no comment, whatever the checker, stays clean; with the fold style Always it prints an
   unbreakable document *)
Theorem C08_list_without_comment_is_one_line :
  forall swidth tab l0 c nodes checker sty,
    clean l0 -> l_fold l0 = Always ->
    Forall (fun n => is_comment_b n = false) nodes ->
    (forall c' n, c_supp c' = c_supp c -> In n nodes ->
       post (checker c' n) (fun o => match o with Some d => unbreakable d = true | None => True end)) ->
    post (lst_process swidth l0 c nodes checker) (fun l => unbreakable (lst_print_doc swidth tab l sty) = true).
Proof.
  intros swidth tab l0 c nodes checker sty H0 Hf Hnc Hck. eapply post_weaken; [apply lst_process_unb; eassumption|].
  intros l [Hc Hfl]. apply lst_print_always_unb; [exact Hc|]. rewrite Hfl. exact Hf.
Qed.
Print Assumptions C08_list_without_comment_is_one_line.

(* The hereditary statement for a sub-language (Unbreak.rs): all code and the markup bodies that nest it - tokens,
   named/keyed pairs, spreads, unary and binary operations, field accesses, calls with their argument lists and
   trailing content blocks (not `table`/`grid`), closures, let bindings, destructuring assignments, set and show rules,
   context/if/while/for/return/include, arrays, dictionaries, destructuring patterns, parameter lists, parenthesized
   expressions, imports with their items, content blocks, strong and emphasised text with their markup bodies,
   equations and the math constructs (math bodies, delimited groups, attachments, roots, fractions, primes), raw
   elements, references, headings, list/enum/term items, code blocks with at most one statement - provided no node is written on several source lines and none is a comment or a paragraph break.  Where breaks are
   suppressed every request the converters make on such a tree yields an unbreakable document, so it is printed on one
   line at every width: this is the situation of `text #box[#rect(width: 10pt, height: 20pt)] text`.  Partial: code
   blocks with two or more statements (laid out on several lines whatever the width) and table calls are outside `rs`. *)
Theorem C08_suppressed_sublanguage_one_line_partial :
  forall swidth cfg t r n d n',
    rs t = true -> ufit r t = true -> c_supp (req_ctx r) = true ->
    call (build swidth cfg t) r n = Ok (d, n') -> unbreakable d = true.
Proof. exact suppressed_sublanguage_unbreakable. Qed.
Check C08_suppressed_sublanguage_one_line_partial :
  forall swidth cfg t r n d n',
    rs t = true -> ufit r t = true -> c_supp (req_ctx r) = true ->
    call (build swidth cfg t) r n = Ok (d, n') -> unbreakable d = true.
Print Assumptions C08_suppressed_sublanguage_one_line_partial.

(* non-vacuity (the input of F44): `x #import "m": c, b y` stays on one line at width 0 *)
Definition ex_import_line : tree :=
  Inner KMarkup [Leaf KText [120] no_attrs; Leaf KSpace [32] no_attrs; Leaf KHash [35] no_attrs;
    Inner KModuleImport [Leaf KImport [105;109;112;111;114;116] no_attrs; Leaf KSpace [32] no_attrs;
      Leaf KStr [34;109;34] no_attrs; Leaf KColon [58] no_attrs; Leaf KSpace [32] no_attrs;
      Inner KImportItems [Inner KImportItemPath [Leaf KIdent [99] no_attrs] no_attrs; Leaf KComma [44] no_attrs;
                          Leaf KSpace [32] no_attrs; Inner KImportItemPath [Leaf KIdent [98] no_attrs] no_attrs] no_attrs] no_attrs;
    Leaf KSpace [32] no_attrs; Leaf KText [121] no_attrs] no_attrs.
Example C08_example_import_on_a_prose_line :
  exists n, format_source (fun s => N.of_nat (length s))
              {| tab_spaces := 2; max_width := 0; blank_lines_upper_bound := 2; reorder_import_items := false |} ex_import_line
            = FOk [120;32;35;105;109;112;111;114;116;32;34;109;34;58;32;99;44;32;98;32;121;10] n.
Proof. eexists. vm_compute. reflexivity. Qed.

(* the import statement of that line is in the sub-language, and the theorem applies to it *)
Definition ex_import_stmt : tree :=
  match ex_import_line with Inner _ [_; _; _; imp; _; _] _ => imp | t => t end.
Example C08_example_sublanguage :
  rs ex_import_stmt = true /\ ufit (RExpr (mk_ctx LCode true)) ex_import_stmt = true.
Proof. split; vm_compute; reflexivity. Qed.

(* a call with an argument list that holds an array: `f(a, (1, 2))` is in the sub-language, and converted in a context
   with breaks suppressed it is rendered on one line even at width 0 *)
Definition ex_call : tree :=
  Inner KFuncCall [Leaf KIdent [102] no_attrs;
    Inner KArgs [Leaf KLeftParen [40] no_attrs; Leaf KIdent [97] no_attrs; Leaf KComma [44] no_attrs; Leaf KSpace [32] no_attrs;
      Inner KArray [Leaf KLeftParen [40] no_attrs; Leaf KInt [49] no_attrs; Leaf KComma [44] no_attrs; Leaf KSpace [32] no_attrs;
                    Leaf KInt [50] no_attrs; Leaf KRightParen [41] no_attrs] no_attrs;
      Leaf KRightParen [41] no_attrs] no_attrs] no_attrs.
Example C08_example_call_one_line :
  rs ex_call = true /\
  match call (build (fun s => N.of_nat (length s)) CliGen.cfg_default ex_call) (RExpr (mk_ctx LCode true)) 0 with
  | Ok (d, _) => unbreakable d = true /\
                 render_events 0 d = Some [EText [102]; EText [40]; EText [97]; EText [44]; EText [32]; EText [40]; EText [49];
                                           EText [44]; EText [32]; EText [50]; EText [41]; EText [41]]
  | Panic _ => False
  end.
Proof. vm_compute. split; [reflexivity|split; reflexivity]. Qed.

(* the nested block of a prose line whose body holds only code: `b[#f(a, 1)]` *)
Definition ex_nested_block : tree :=
  Inner KFuncCall [Leaf KIdent [98] no_attrs;
    Inner KArgs [Inner KContentBlock [Leaf KLeftBracket [91] no_attrs;
      Inner KMarkup [Leaf KHash [35] no_attrs;
        Inner KFuncCall [Leaf KIdent [102] no_attrs;
          Inner KArgs [Leaf KLeftParen [40] no_attrs; Leaf KIdent [97] no_attrs; Leaf KComma [44] no_attrs;
                       Leaf KSpace [32] no_attrs; Leaf KInt [49] no_attrs; Leaf KRightParen [41] no_attrs] no_attrs] no_attrs] no_attrs;
      Leaf KRightBracket [93] no_attrs] no_attrs] no_attrs] no_attrs.
Example C08_example_nested_block :
  rs ex_nested_block = true /\
  match call (build (fun s => N.of_nat (length s)) CliGen.cfg_default ex_nested_block) (RExprEmb (mk_ctx LMarkup true)) 0 with
  | Ok (d, _) => unbreakable d = true
  | Panic _ => False
  end.
Proof. vm_compute. split; reflexivity. Qed.
