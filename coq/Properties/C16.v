(* C16 — All front-ends agree with the library. F is the library call. *)
From TV Require Import Cli CliProofs.

(* plain mode: stdout is, in argument order, F cfg c for every readable file (c itself if erroneous),
   nothing for unreadable ones, nothing added; no file is touched *)
Theorem C16_plain_mode_prints_library_output :
  forall F sty inputs f,
    let st := format_many F false false (to_config sty) inputs f in
    s_printed st =
      flat_map (fun p => match lookup f p with
                         | Some (FText c) => match F (to_config sty) c with Some r => [r] | None => [c] end
                         | _ => []
                         end) inputs /\
    s_fs st = f /\ s_writes st = [].
Proof. exact plain_mode_prints_library_output. Qed.
Print Assumptions C16_plain_mode_prints_library_output.

Theorem C16_stdin_prints_library_output :
  forall F sty c f,
    s_printed (r_state (run F (IStdin false false sty (Some c)) f)) =
      [match F (to_config sty) c with Some r => r | None => c end] /\
    s_fs (r_state (run F (IStdin false false sty (Some c)) f)) = f.
Proof. exact stdin_prints_library_output. Qed.
Print Assumptions C16_stdin_prints_library_output.

(* the width-only convenience function (exported to WebAssembly) *)
Theorem C16_format_with_width :
  forall F c w, format_with_width F c w =
    match F (with_width cfg_default w) c with Some o => o | None => c end.
Proof. exact format_with_width_spec. Qed.
Print Assumptions C16_format_with_width.

(* the option map — a statement about gen/CliGen.v, REGENERATED from cli.rs/fmt.rs/config.rs on every run *)
Theorem C16_to_config_maps_options :
  forall a, max_width (to_config a) = sa_column a /\
            tab_spaces (to_config a) = sa_tab_width a /\
            reorder_import_items (to_config a) = sa_reorder_import_items a /\
            blank_lines_upper_bound (to_config a) = blank_lines_upper_bound cfg_default.
Proof. exact to_config_maps_options. Qed.
Print Assumptions C16_to_config_maps_options.

Theorem C16_cli_defaults :
  sa_column cli_default_style = 80 /\ sa_tab_width cli_default_style = 2 /\
  sa_reorder_import_items cli_default_style = false /\
  to_config cli_default_style = cfg_default /\
  inplace_conflicts_with_check = true /\
  config_fields_as_modelled = true /\ format_with_width_as_modelled = true.
Proof. exact cli_defaults. Qed.
Print Assumptions C16_cli_defaults.
