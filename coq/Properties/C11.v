(* C11 — Output hygiene: final newline, no trailing blanks.
   This file contains only the property theorem, a pin of its statement, and its assumptions. *)
From TV Require Import Str Post PostProofs.

(* Closed and unbounded: for EVERY string handed to the post-processing pass
   (in particular every rendered document of every accepted input, see Format.format_source),
   the result is non-empty, ends with a line feed and has no line ending in a White_Space character. *)
Theorem C11_output_hygiene : forall s : str, hygiene (strip s).
Proof. exact strip_hygiene. Qed.

Check C11_output_hygiene :
  forall s : str,
    strip s <> [] /\ last (strip s) 0 = LF /\
    Forall (fun l => l = [] \/ is_ws (last l 0) = false) (split_lf (strip s)).
Print Assumptions C11_output_hygiene.

Theorem C11_strip_idempotent : forall s : str, strip (strip s) = strip s.
Proof. exact strip_idempotent. Qed.
Print Assumptions C11_strip_idempotent.

Theorem C11_hygiene_decidable : forall r : str, hygiene_b r = true <-> hygiene r.
Proof. exact hygiene_b_spec. Qed.
Print Assumptions C11_hygiene_decidable.
