(* C09 — whitespace in math is neither created, removed nor converted: structure of convert_math. *)
From TV Require Import Conv Format Render RenderProofs SeqProofs MathProofs ConvProofs.

Section Full.
  Variable parse : str -> tree.
  Variable obs_math : tree -> list (list N).
  Variable swidth : str -> N.
  (* not proved: the re-parsed half needs the parser; MathDelimited / Equation edges are decided by the
     correspondence and the oracle only *)
  Definition C09_full : Prop :=
    forall cfg src out n,
      erroneous (parse src) = false -> format_source swidth cfg (parse src) = FOk out n ->
      obs_math (parse out) = obs_math (parse src).
End Full.

(* For every Math node that is not format-disabled, every context and whatever its children convert to:
   in every layout the children contribute in order; a Space child contributes a mandatory line break if
   it held one and exactly one U+0020 otherwise; nothing is emitted between children. *)
Theorem C09_math_structure :
  forall swidth t kids c n d n' x,
    a_disabled (attrs_of t) = false ->
    convert_math swidth t kids c n = Ok (d, n') -> seqs d x ->
    exists xs, Forall2 math_child kids xs /\ x = concat xs.
Proof. exact convert_math_atoms. Qed.
Check C09_math_structure :
  forall swidth t kids c n d n' x,
    a_disabled (attrs_of t) = false ->
    convert_math swidth t kids c n = Ok (d, n') -> seqs d x ->
    exists xs, Forall2 math_child kids xs /\ x = concat xs.
Print Assumptions C09_math_structure.

Theorem C09_width_independent :
  forall width d es, render_events width d = Some es -> seqs d (map atom_of_event es).
Proof. exact render_atoms. Qed.
Print Assumptions C09_width_independent.

(* non-vacuity: `$a  b$` keeps one blank, `$a⏎b$` keeps the line break, at width 0 and 80 *)
Definition ex_math (sp : str) : tree :=
  Inner KMarkup [Inner KEquation [Leaf KDollar [36] no_attrs;
     Inner KMath [Leaf KMathIdent [97] no_attrs; Leaf KSpace sp no_attrs; Leaf KMathIdent [98] no_attrs] no_attrs;
     Leaf KDollar [36] no_attrs] no_attrs] no_attrs.
Example C09_example_space :
  exists n, format_source (fun s => N.of_nat (length s))
              {| tab_spaces := 2; max_width := 0; blank_lines_upper_bound := 2; reorder_import_items := false |}
              (ex_math [32;32]) = FOk [36;97;32;98;36;10] n.
Proof. eexists. vm_compute. reflexivity. Qed.
Example C09_example_break :
  exists n, format_source (fun s => N.of_nat (length s)) CliGen.cfg_default (ex_math [10]) = FOk [36;97;10;98;36;10] n.
Proof. eexists. vm_compute. reflexivity. Qed.
