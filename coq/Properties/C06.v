(* C06 — comments: same text, emitted once by the comment converter; the parser-free core. *)
From TV Require Import Conv Format Render RenderProofs SeqProofs ConvProofs ParenProofs CommentProofs MarkupProofs MathProofs FlowProofs ListProofs Sig SigTree SigScope SigConv Attr.

Section Full.
  Variable parse : str -> tree.
  Variable comments : tree -> list (str * str * str).    (* text, previous word, next word *)
  Variable swidth : str -> N.
  (* not proved: needs the parser and token conservation over all converters *)
  Definition C06_full : Prop :=
    forall cfg src out n,
      erroneous (parse src) = false -> format_source swidth cfg (parse src) = FOk out n ->
      comments (parse out) = comments (parse src).
End Full.

(* (1) block comments: every layout consists of the comment's own lines, in order, each line being
   the source line without some leading White_Space; nothing else changes *)
Theorem C06_block_comment_text :
  forall swidth t d x, lines t <> [] -> block_comment swidth t = Ok d -> seqs d x ->
    exists outs, Forall2 line_cut (lines t) outs /\ x = lines_atoms outs.
Proof. exact block_comment_text. Qed.
Check C06_block_comment_text :
  forall swidth t d x, lines t <> [] -> block_comment swidth t = Ok d -> seqs d x ->
    exists outs, Forall2 line_cut (lines t) outs /\ x = lines_atoms outs.
Print Assumptions C06_block_comment_text.

(* (2) line comments: one atom, exact text *)
Theorem C06_line_comment_text :
  forall swidth t x, seqs (line_comment swidth t) x -> x = text_atoms t.
Proof. exact line_comment_text. Qed.
Check C06_line_comment_text : forall swidth t x, seqs (line_comment swidth t) x -> x = text_atoms t.
Print Assumptions C06_line_comment_text.

(* (3) the comment converter never fails on a comment node *)
Theorem C06_comment_total :
  forall swidth t, is_comment_node t = true -> exists d, comment swidth t = Ok d.
Proof. exact comment_no_panic. Qed.
Check C06_comment_total : forall swidth t, is_comment_node t = true -> exists d, comment swidth t = Ok d.
Print Assumptions C06_comment_total.

(* (4) in markup and in math a comment child contributes exactly the comment converter's atoms at its
   own position among its siblings (instances of the structure theorems of C08 / C09) *)
Theorem C06_markup_comment_in_place :
  forall swidth t kids c sc n d n' x,
    is_only_one_and kids (fun b => kind_eqb (bk b) KSpace) = false ->
    convert_markup_impl swidth t kids c sc n = Ok (d, n') -> seqs d x ->
    exists xstart xlines xend,
      x = xstart ++ concat xlines ++ xend /\ ws_only xstart /\ ws_only xend /\
      Forall2 (line_atoms swidth) (mr_lines (collect_markup_repr kids)) xlines.
Proof. exact convert_markup_atoms. Qed.
Print Assumptions C06_markup_comment_in_place.

(* non-vacuity: a two-line plain block comment is re-aligned and keeps its text *)
Example C06_example :
  block_comment (fun s => N.of_nat (length s)) [47;42;32;97;10;32;32;32;98;32;42;47] =
  Ok (DAlign (DAppend (DAppend (DText [47;42;32;97]) DHardline) (DText [98;32;42;47]))).
Proof. vm_compute. reflexivity. Qed.

(* a comment met by the flow stylist is pushed as the comment's own document, at its place among the children:
   `op_for` gives, for a comment child, `FComment d _` with `comment swidth (bt child) = Ok d`, and the stylist's
   document holds the atoms of all pushed documents in child order with only blanks and line breaks between them *)
Theorem C06_flow_keeps_comments_in_place :
  forall swidth S (c : ctx) children (s0 : S) producer n d n' x,
    flow_like_iter swidth c children s0 producer n = Ok (d, n') -> seqs d x ->
    exists ops xs, Forall2 (op_for swidth producer) children ops /\ Forall2 seqs (map fop_doc ops) xs /\
                   solid x = solid (concat xs).
Proof. exact flow_like_iter_conserves. Qed.
Print Assumptions C06_flow_keeps_comments_in_place.

(* the same for the list stylist: a comment among the nodes of a list is pushed as `LComment d _` with
   `comment swidth (bt node) = Ok d` (trivia_op) and reaches the printed list at its place among the items *)
Theorem C06_list_keeps_comments_in_place :
  forall swidth cfg (l0 : lst) (c : ctx) nodes checker n l' n' sty x,
    l_items l0 = [] -> l_free l0 = [] ->
    lst_process swidth l0 c nodes checker n = Ok (l', n') ->
    seqs (lst_doc swidth cfg l' sty) x ->
    exists ops xs, Forall2 (lop_for swidth checker) nodes ops /\
                   Forall2 seqs (pushed_by swidth l0 ops) xs /\ kept sty x = kept sty (concat xs).
Proof. exact lst_process_conserves. Qed.
Print Assumptions C06_list_keeps_comments_in_place.

(* no comment is lost, duplicated or moved across a token, at any width (SigConv.v): for a tree in the scope `sc` and
   reordering off, the text rendered at the configured width has exactly the signature of the source tree - every
   character of every comment (and of every other token) other than blanks and the delimiters ( ) [ ] { } $ , ; : ,
   in source order. The only reordering of a comment the formatter performs - a comment between `not` and `in` is
   emitted before the operator - is outside `sc`. *)
Theorem C06_no_comment_lost_or_moved_in_scope :
  forall swidth cfg t out n,
    reorder_import_items cfg = false -> sc (annotate t) = true ->
    format_source swidth cfg t = FOk out n ->
    exists d es, convert_root swidth cfg t = Ok (d, n) /\ render_events (max_width cfg) d = Some es /\
                 out = Post.strip (flatten_events es) /\ sig (flatten_events es) = tsig t.
Proof.
  intros swidth cfg t out n Hr Hs H. destruct (format_output_atoms swidth cfg t out n H) as (d & es & Hc & Hre & Ho & Hq & _).
  exists d, es. repeat split; try assumption.
  rewrite flatten_events_sig. destruct (convert_root_conserves swidth cfg t d n Hr Hs Hc) as [Hd Hw].
  rewrite <- Hd. apply seqs_sig; assumption.
Qed.
Check C06_no_comment_lost_or_moved_in_scope :
  forall swidth cfg t out n,
    reorder_import_items cfg = false -> sc (annotate t) = true ->
    format_source swidth cfg t = FOk out n ->
    exists d es, convert_root swidth cfg t = Ok (d, n) /\ render_events (max_width cfg) d = Some es /\
                 out = Post.strip (flatten_events es) /\ sig (flatten_events es) = tsig t.
Print Assumptions C06_no_comment_lost_or_moved_in_scope.
