(* C10 — literal content is preserved exactly: leaves are emitted from their own text; the one place
   where content can change is post-processing (known finding F4, witnessed below). *)
From TV Require Import Conv Format Render RenderProofs SeqProofs ConvProofs Post PostProofs StripLit Survive Sig SigTree SigScope SigConv Attr.

Section Full.
  Variable parse : str -> tree.
  Variable literals : tree -> list str.
  Variable swidth : str -> N.
  (* FALSE of the faithful model (see C10_refuted): blanks before a line feed inside a string or raw
     block are removed by strip_trailing_whitespace; (4) and (5) below show that this is the only way
     post-processing touches a literal *)
  Definition C10_full : Prop :=
    forall cfg src out n,
      erroneous (parse src) = false -> format_source swidth cfg (parse src) = FOk out n ->
      literals (parse out) = literals (parse src).
End Full.

(* (1) every leaf that carries literal content is converted to one atom holding its exact text,
   whatever the context, and whether or not it is format-disabled *)
Theorem C10_literal_leaf_exact :
  forall swidth cfg k s a c n, literal_kind k = true ->
    convert_expr swidth cfg (build swidth cfg (Leaf k s a)) c n = Ok (text swidth s, n + 1).
Proof. exact convert_literal_leaf. Qed.
Check C10_literal_leaf_exact :
  forall swidth cfg k s a c n, literal_kind k = true ->
    convert_expr swidth cfg (build swidth cfg (Leaf k s a)) c n = Ok (text swidth s, n + 1).
Print Assumptions C10_literal_leaf_exact.

(* (2) a text atom reaches the rendered string unchanged at every width *)
Theorem C10_atoms_rendered_verbatim :
  forall width d es, render_events width d = Some es -> seqs d (map atom_of_event es).
Proof. exact render_atoms. Qed.
Print Assumptions C10_atoms_rendered_verbatim.

Theorem C10_rendered_string_is_atoms : forall es, flatten_events es = atoms_text es.
Proof. exact flatten_events_spec. Qed.
Print Assumptions C10_rendered_string_is_atoms.

(* (3) the known finding, as a theorem about the faithful model: `#let s = "a  ⏎b"` loses the two blanks *)
Definition ex_f4 : tree :=
  Inner KMarkup [Leaf KHash [35] no_attrs;
    Inner KLetBinding [Leaf KLet [108;101;116] no_attrs; Leaf KSpace [32] no_attrs; Leaf KIdent [115] no_attrs;
                       Leaf KSpace [32] no_attrs; Leaf KEq [61] no_attrs; Leaf KSpace [32] no_attrs;
                       Leaf KStr [34;97;32;32;10;98;34] no_attrs] no_attrs] no_attrs.
Theorem C10_refuted :
  exists n, format_source (fun s => N.of_nat (length s)) CliGen.cfg_default ex_f4
            = FOk [35;108;101;116;32;115;32;61;32;34;97;10;98;34;10] n.
Proof. eexists. vm_compute. reflexivity. Qed.
Print Assumptions C10_refuted.

(* (4) post-processing leaves a piece of the rendered text alone when none of its line feeds is preceded, inside
   the piece, by a White_Space character and it does not end with one (a string ends with its quote, raw text with
   its fence): the converse of C10_refuted *)
Theorem C10_clean_text_survives_postprocessing :
  forall pre v post, clean v -> ends_solid v ->
    exists pre' post', strip (pre ++ v ++ post) = pre' ++ v ++ post'.
Proof. exact strip_keeps_clean. Qed.
Check C10_clean_text_survives_postprocessing :
  forall pre v post, clean v -> ends_solid v ->
    exists pre' post', strip (pre ++ v ++ post) = pre' ++ v ++ post'.
Print Assumptions C10_clean_text_survives_postprocessing.

(* (5) end to end over the model: every text atom the renderer emitted occurs in the formatter's output with only
   the White_Space before its own line feeds removed, and unchanged when it has none *)
Theorem C10_emitted_text_reaches_output :
  forall swidth cfg t out n,
    format_source swidth cfg t = FOk out n ->
    exists d es,
      convert_root swidth cfg t = Ok (d, n) /\ render_events (max_width cfg) d = Some es /\
      forall v, In (EText v) es -> ends_solid v ->
        (exists pre post, out = pre ++ trim_line_ends v ++ post) /\
        (clean v -> exists pre post, out = pre ++ v ++ post).
Proof. exact emitted_text_survives. Qed.
Print Assumptions C10_emitted_text_reaches_output.

(* non-vacuity: the string literal "a⏎b" satisfies both hypotheses; "a  ⏎b" (C10_refuted) is not clean *)
Example C10_example_clean :
  clean [34;97;10;98;34] /\ ends_solid [34;97;10;98;34] /\ clean_b [34;97;32;32;10;98;34] = false.
Proof. split; [apply clean_b_spec; reflexivity|split; [split; [discriminate|reflexivity]|reflexivity]]. Qed.

(* (6) no literal is dropped or altered beyond blanks and delimiters, at any width (SigConv.v): for a tree in scope the
   rendered text has exactly the signature of the source tree; together with (4)/(5), which say that post-processing
   only removes blanks before line feeds, every character of every literal reaches the output in order *)
Theorem C10_signature_conserved_in_scope :
  forall swidth cfg t d n,
    reorder_import_items cfg = false -> sc (annotate t) = true ->
    convert_root swidth cfg t = Ok (d, n) ->
    forall w es, render_events w d = Some es -> seqs d (map atom_of_event es) ->
      sig (flatten_events es) = tsig t.
Proof.
  intros swidth cfg t d n Hr Hs Hc w es _ Hq. rewrite flatten_events_sig.
  destruct (convert_root_conserves swidth cfg t d n Hr Hs Hc) as [Hd Hw]. rewrite <- Hd. apply seqs_sig; assumption.
Qed.
Print Assumptions C10_signature_conserved_in_scope.
