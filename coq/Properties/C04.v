(* C04 — well-formed input never yields output with syntax errors: the parser-free mechanisms. *)
From TV Require Import Conv Format Render RenderProofs SeqProofs ConvProofs ParenProofs CommentProofs Post.

Section Full.
  Variable parse : str -> tree.
  Variable swidth : str -> N.
  (* not proved: needs the parser (DESIGN.md section 3) *)
  Definition C04_full : Prop :=
    forall cfg src out n,
      erroneous (parse src) = false -> format_source swidth cfg (parse src) = FOk out n -> erroneous (parse out) = false.
End Full.

(* (1) a group that the renderer lays out flat never contains a line break, at any width: an
   expression that must stay on one line is not split when its group is flat *)
Theorem C04_flat_group_one_line :
  forall d x, lay MFlat d x -> flat_has_line d = false -> ~ In ALine x.
Proof. exact lay_flat_one_line. Qed.
Check C04_flat_group_one_line : forall d x, lay MFlat d x -> flat_has_line d = false -> ~ In ALine x.
Print Assumptions C04_flat_group_one_line.

Theorem C04_render_refines_layouts :
  forall width d es, render_events width d = Some es -> lay MBreak d (map atom_of_event es).
Proof. exact render_lay. Qed.
Check C04_render_refines_layouts :
  forall width d es, render_events width d = Some es -> lay MBreak d (map atom_of_event es).
Print Assumptions C04_render_refines_layouts.

(* (2) optional parentheses / braces appear exactly when the body is broken *)
Theorem C04_optional_paren_sound :
  forall swidth cfg body op cl x,
    lay MBreak (optional_paren swidth cfg body op cl) x ->
    (flat_has_line body = false /\ lay MFlat body x /\ ~ In ALine x)
    \/ (exists b, lay MBreak body b /\ x = text_atoms op ++ [ALine] ++ b ++ [ALine] ++ text_atoms cl).
Proof. exact optional_paren_sound. Qed.
Check C04_optional_paren_sound :
  forall swidth cfg body op cl x,
    lay MBreak (optional_paren swidth cfg body op cl) x ->
    (flat_has_line body = false /\ lay MFlat body x /\ ~ In ALine x)
    \/ (exists b, lay MBreak body b /\ x = text_atoms op ++ [ALine] ++ b ++ [ALine] ++ text_atoms cl).
Print Assumptions C04_optional_paren_sound.

(* (3) a line comment is emitted as one atom with its exact text (nothing is appended to its line by the
   comment converter itself) *)
Theorem C04_line_comment_atom :
  forall swidth t x, seqs (line_comment swidth t) x -> x = text_atoms t.
Proof. exact line_comment_text. Qed.
Check C04_line_comment_atom : forall swidth t x, seqs (line_comment swidth t) x -> x = text_atoms t.
Print Assumptions C04_line_comment_atom.

(* non-vacuity: optional_paren has both kinds of layout *)
Example C04_example_flat :
  lay MBreak (optional_paren (fun s => N.of_nat (length s)) CliGen.cfg_default (DText [97]) [40] [41]) [AText [97]].
Proof.
  vm_compute. apply l_group_flat; [reflexivity|].
  change [AText [97]] with (([] ++ [AText [97]]) ++ []).
  apply l_app; [apply l_nest; apply l_app; [apply l_alt_flat; apply l_nil|apply l_text]|apply l_alt_flat; apply l_nil].
Qed.
