(* C18 — work grows linearly with input size: the conversion counter of the model (bumped at the four hooked
   entry points, the same definition the formatter itself is) and its cost calculus. *)
From TV Require Import Conv CostProofs CostBound.
From TV.gen Require CliGen.

(* Full statement over the model: whatever the request, configuration, width oracle and nesting, answering it on
   the bundle of a tree advances the conversion counter by at most three per syntax node.  `wfc` is the schema
   clause the proof needs (MathDelimited starts and ends with an expression, a Binary has no operator token
   before its first operand, an Args node has its left parenthesis first); the C18 check evaluates the same
   extracted `wfc` on every tree the parser hands over.  `req_ok` only excludes asking for the table layout on
   an argument list without parentheses, which `convert_func_call` never does (CostBound.table_cols_has_paren). *)
Definition C18_full : Prop :=
  forall swidth cfg t r n d n',
    wfc t = true -> req_ok (build swidth cfg t) r ->
    call (build swidth cfg t) r n = Ok (d, n') -> n' <= n + 3 * N.of_nat (tree_size t).

Theorem C18_conversions_linear : C18_full.
Proof. exact conversions_linear. Qed.
Check C18_conversions_linear :
  forall swidth cfg t r n d n',
    wfc t = true -> req_ok (build swidth cfg t) r ->
    call (build swidth cfg t) r n = Ok (d, n') -> n' <= n + 3 * N.of_nat (tree_size t).
Print Assumptions C18_conversions_linear.

(* the document root: formatting a whole source starts the counter at 0 *)
Theorem C18_root :
  forall swidth cfg t c d cnt,
    wfc t = true -> convert_markup_root swidth cfg t c 0 = Ok (d, cnt) -> cnt <= 3 * N.of_nat (tree_size t).
Proof.
  intros swidth cfg t c d cnt Hw H. unfold convert_markup_root in H.
  apply (conversions_linear swidth cfg t (RMarkup c ScDocument) 0 d cnt Hw I H).
Qed.
Print Assumptions C18_root.

(* (1) sequencing and folds add costs *)
Theorem C18_costs_bind :
  forall A B (m : M A) (f : A -> M B) k1 k2, costs m k1 -> (forall a, costs (f a) k2) -> costs (bind m f) (k1 + k2).
Proof. exact @costs_bind. Qed.
Print Assumptions C18_costs_bind.

Theorem C18_costs_fold :
  forall A S (f : S -> A -> M S) (g : A -> N) l s,
    (forall s x, In x l -> costs (f s x) (g x)) -> costs (foldM f l s) (sumN g l).
Proof. exact @costs_foldM. Qed.
Print Assumptions C18_costs_fold.

(* (2) each stylist hands every child to the item converter at most once: its cost is at most the sum of the
   converter's costs over the children, whatever the converter is *)
Theorem C18_flow_once_per_child :
  forall swidth S (c : ctx) (children : list bundle) (s0 : S)
         (producer : S -> ctx -> bundle -> M (S * option flow_item)) (g : bundle -> N),
    (forall s c' b, In b children -> costs (producer s c' b) (g b)) ->
    costs (flow_like_iter swidth c children s0 producer) (sumN g children).
Proof. exact costs_flow_like_iter. Qed.
Check C18_flow_once_per_child :
  forall swidth S (c : ctx) (children : list bundle) (s0 : S)
         (producer : S -> ctx -> bundle -> M (S * option flow_item)) (g : bundle -> N),
    (forall s c' b, In b children -> costs (producer s c' b) (g b)) ->
    costs (flow_like_iter swidth c children s0 producer) (sumN g children).
Print Assumptions C18_flow_once_per_child.

Theorem C18_list_once_per_child :
  forall swidth (l : lst) (c : ctx) (nodes : list bundle) (checker : ctx -> bundle -> M (option doc)) (g : bundle -> N),
    (forall c' b, In b nodes -> costs (checker c' b) (g b)) ->
    costs (lst_process swidth l c nodes checker) (sumN g nodes).
Proof. exact costs_lst_process. Qed.
Print Assumptions C18_list_once_per_child.

Theorem C18_plain_once_per_child :
  forall swidth cfg (c : ctx) (nodes : list bundle) (conv : ctx -> bundle -> M (option doc)) (g : bundle -> N),
    (forall c' b, In b nodes -> costs (conv c' b) (g b)) ->
    costs (plain_process swidth cfg c nodes conv) (sumN g nodes).
Proof. exact costs_plain_process. Qed.
Print Assumptions C18_plain_once_per_child.

(* non-vacuity: the counter on `#f(1,2)`: markup, call, callee, two arguments = 5 conversions for 10 nodes *)
Definition ex_call : tree :=
  Inner KMarkup [Leaf KHash [35] no_attrs;
    Inner KFuncCall [Leaf KIdent [102] no_attrs;
      Inner KArgs [Leaf KLeftParen [40] no_attrs; Leaf KInt [49] no_attrs; Leaf KComma [44] no_attrs;
                   Leaf KInt [50] no_attrs; Leaf KRightParen [41] no_attrs] no_attrs] no_attrs] no_attrs.
Example C18_example :
  exists d, call (build (fun s => N.of_nat (length s)) CliGen.cfg_default ex_call) (RMarkup ctx_default ScDocument) 0 = Ok (d, 5).
Proof. eexists. vm_compute. reflexivity. Qed.

Example C18_example_wfc : wfc ex_call = true /\ N.of_nat (tree_size ex_call) = 10.
Proof. vm_compute. split; reflexivity. Qed.
