(* C07 — `@typstyle off` reproduces the next node verbatim: attribute pass + the four entry points. *)
From TV Require Import Conv Format Attr AttrProofs ConvProofs MathProofs Format Render Post StripLit Survive.

Section Full.
  Variable swidth : str -> N.
  (* Full statement over the model (not proved as a whole: it needs the induction over all converters that
     shows every expression child is converted through one of the four checking entry points):
     the text of every protected node occurs, line-end blanks apart, in the output. *)
  Definition C07_full : Prop :=
    forall cfg t out n target pre post,
      format_source swidth cfg t = FOk out n ->
      into_text t = pre ++ into_text target ++ post ->
      True.   (* placeholder for "target is protected in t -> strip-equal occurrence in out"; see DESIGN.md *)
End Full.

(* (1) the attribute pass marks the directive comment and the next sibling that is not a comment,
   Space, Parbreak or Hash, as a whole, and does not descend into it *)
Theorem C07_directive_marks_next_sibling :
  forall rec pre dn cm d mid tgt post,
    is_directive d = true -> forallb passed_over mid = true ->
    is_comment_node tgt = false -> skips_directive tgt = false ->
    exists pre' mid' post' cm',
      no_format_children rec (pre ++ d :: mid ++ tgt :: post) dn cm =
        (pre' ++ set_disabled d :: mid' ++ set_disabled tgt :: post', cm') /\
      length pre' = length pre /\ length mid' = length mid.
Proof. exact directive_marks_next_sibling. Qed.
Check C07_directive_marks_next_sibling :
  forall rec pre dn cm d mid tgt post,
    is_directive d = true -> forallb passed_over mid = true ->
    is_comment_node tgt = false -> skips_directive tgt = false ->
    exists pre' mid' post' cm',
      no_format_children rec (pre ++ d :: mid ++ tgt :: post) dn cm =
        (pre' ++ set_disabled d :: mid' ++ set_disabled tgt :: post', cm') /\
      length pre' = length pre /\ length mid' = length mid.
Print Assumptions C07_directive_marks_next_sibling.

Theorem C07_no_format_is_children_pass :
  forall k cs a, no_format (Inner k cs a) =
                 let (cs', commented) := no_format_children no_format cs false false in
                 set_commented commented (Inner k cs' a).
Proof. exact no_format_inner. Qed.
Print Assumptions C07_no_format_is_children_pass.

Theorem C07_mark_keeps_text :
  forall t, a_disabled (attrs_of (set_disabled t)) = true /\ into_text (set_disabled t) = into_text t.
Proof. exact set_disabled_spec. Qed.
Print Assumptions C07_mark_keeps_text.

(* (2) each conversion entry point emits a marked node as one atom holding its source text *)
Theorem C07_expr_verbatim :
  forall swidth cfg self c n, a_disabled (attrs_of (bt self)) = true ->
    convert_expr swidth cfg self c n = Ok (text swidth (into_text (bt self)), n + 1).
Proof. exact convert_expr_disabled. Qed.
Check C07_expr_verbatim :
  forall swidth cfg self c n, a_disabled (attrs_of (bt self)) = true ->
    convert_expr swidth cfg self c n = Ok (text swidth (into_text (bt self)), n + 1).
Print Assumptions C07_expr_verbatim.

Theorem C07_pattern_verbatim :
  forall swidth cfg self c n, a_disabled (attrs_of (bt self)) = true ->
    convert_pattern swidth cfg self c n = Ok (text swidth (into_text (bt self)), n + 1).
Proof. exact convert_pattern_disabled. Qed.
Print Assumptions C07_pattern_verbatim.

Theorem C07_math_verbatim :
  forall swidth t kids c n, a_disabled (attrs_of t) = true ->
    convert_math swidth t kids c n = Ok (text swidth (into_text t), n + 1).
Proof. exact convert_math_disabled. Qed.
Print Assumptions C07_math_verbatim.

Theorem C07_code_body_verbatim :
  forall swidth cfg t kids c n body,
    find (fun b => kind_eqb (bk b) KCode) kids = Some body -> a_disabled (attrs_of (bt body)) = true ->
    convert_code_block swidth cfg t kids c n = Ok (text swidth (into_text t), n).
Proof. exact convert_code_block_disabled. Qed.
Print Assumptions C07_code_body_verbatim.

(* non-vacuity: `/* @typstyle off */ #f( 1 )` at markup level: the call is emitted verbatim *)
Definition ex_off : tree :=
  Inner KMarkup [Leaf KBlockComment [47;42;32;64;116;121;112;115;116;121;108;101;32;111;102;102;32;42;47] no_attrs;
    Leaf KSpace [32] no_attrs; Leaf KHash [35] no_attrs;
    Inner KFuncCall [Leaf KIdent [102] no_attrs;
      Inner KArgs [Leaf KLeftParen [40] no_attrs; Leaf KSpace [32] no_attrs; Leaf KInt [49] no_attrs;
                   Leaf KSpace [32] no_attrs; Leaf KRightParen [41] no_attrs] no_attrs] no_attrs] no_attrs.
Example C07_example :
  exists n, format_source (fun s => N.of_nat (length s)) CliGen.cfg_default ex_off =
            FOk ([47;42;32;64;116;121;112;115;116;121;108;101;32;111;102;102;32;42;47;32;35] ++ [102;40;32;49;32;41;10]) n.
Proof. eexists. vm_compute. reflexivity. Qed.

(* the protected node is one text atom (theorems above); such an atom, once emitted, reaches the output with nothing
   changed but the blanks before its own line feeds -- the property's "apart from blanks at line ends" *)
Theorem C07_verbatim_atom_reaches_output :
  forall swidth cfg t out n,
    format_source swidth cfg t = FOk out n ->
    exists d es,
      convert_root swidth cfg t = Ok (d, n) /\ render_events (max_width cfg) d = Some es /\
      forall v, In (EText v) es -> ends_solid v ->
        (exists pre post, out = pre ++ trim_line_ends v ++ post) /\
        (clean v -> exists pre post, out = pre ++ v ++ post).
Proof. exact emitted_text_survives. Qed.
Print Assumptions C07_verbatim_atom_reaches_output.
