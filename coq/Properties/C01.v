(* C01 — formatting preserves the syntax tree. Statements, `exact` proofs, pins, assumption reports. *)
From TV Require Import Conv Format Render RenderProofs SeqProofs ConvProofs ParenProofs MarkupProofs MathProofs Post.

(* The full property mentions re-parsing; the parser is outside the model (DESIGN.md section 3), so the
   full statement is given over an abstract parser and an abstract skeleton. It is NOT proved: what is
   proved below are its parser-free mechanisms, for every tree, configuration and width. *)
Section Full.
  Variable parse : str -> tree.
  Variable skel : tree -> list N.
  Variable swidth : str -> N.
  Definition C01_full : Prop :=
    forall cfg src out n,
      erroneous (parse src) = false ->
      format_source swidth cfg (parse src) = FOk out n ->
      erroneous (parse out) = false /\ skel (parse out) = skel (parse src).
End Full.

(* (1) Token emission: at every width the output is the stripped concatenation of atoms of the
   converter's document, in document order; a group is flat or broken as a whole. *)
Theorem C01_output_atoms_partial :
  forall swidth cfg t out n,
    format_source swidth cfg t = FOk out n ->
    exists d es, convert_root swidth cfg t = Ok (d, n) /\
                 render_events (max_width cfg) d = Some es /\
                 out = strip (flatten_events es) /\
                 seqs d (map atom_of_event es) /\ lay MBreak d (map atom_of_event es).
Proof. exact format_output_atoms. Qed.
Check C01_output_atoms_partial :
  forall swidth cfg t out n,
    format_source swidth cfg t = FOk out n ->
    exists d es, convert_root swidth cfg t = Ok (d, n) /\
                 render_events (max_width cfg) d = Some es /\
                 out = strip (flatten_events es) /\
                 seqs d (map atom_of_event es) /\ lay MBreak d (map atom_of_event es).
Print Assumptions C01_output_atoms_partial.

(* (2) Optional delimiters (parened_expr.rs): laid out flat the body stays on one line and gets no
   delimiters; laid out broken it is enclosed in them. *)
Theorem C01_optional_paren_sound :
  forall swidth cfg body op cl x,
    lay MBreak (optional_paren swidth cfg body op cl) x ->
    (flat_has_line body = false /\ lay MFlat body x /\ ~ In ALine x)
    \/ (exists b, lay MBreak body b /\ x = text_atoms op ++ [ALine] ++ b ++ [ALine] ++ text_atoms cl).
Proof. exact optional_paren_sound. Qed.
Check C01_optional_paren_sound :
  forall swidth cfg body op cl x,
    lay MBreak (optional_paren swidth cfg body op cl) x ->
    (flat_has_line body = false /\ lay MFlat body x /\ ~ In ALine x)
    \/ (exists b, lay MBreak body b /\ x = text_atoms op ++ [ALine] ++ b ++ [ALine] ++ text_atoms cl).
Print Assumptions C01_optional_paren_sound.

(* (3) Markup is re-emitted line by line in source order (see C08 for the statement's reading). *)
Theorem C01_markup_source_lines :
  forall kids, sub_ws (all_nodes (mr_lines (collect_markup_repr kids))) kids /\
               kept_spaces_ok (all_nodes (mr_lines (collect_markup_repr kids))).
Proof. exact repr_lines_are_source_lines. Qed.
Check C01_markup_source_lines :
  forall kids, sub_ws (all_nodes (mr_lines (collect_markup_repr kids))) kids /\
               kept_spaces_ok (all_nodes (mr_lines (collect_markup_repr kids))).
Print Assumptions C01_markup_source_lines.

(* non-vacuity: `#f(1,2)` is accepted and rendered with its four tokens in order *)
Definition ex_call : tree :=
  Inner KMarkup [Leaf KHash [35] no_attrs;
    Inner KFuncCall [Leaf KIdent [102] no_attrs;
      Inner KArgs [Leaf KLeftParen [40] no_attrs; Leaf KInt [49] no_attrs; Leaf KComma [44] no_attrs;
                   Leaf KInt [50] no_attrs; Leaf KRightParen [41] no_attrs] no_attrs] no_attrs] no_attrs.
Example C01_example :
  exists n, format_source (fun s => N.of_nat (length s)) CliGen.cfg_default ex_call = FOk [35;102;40;49;44;32;50;41;10] n.
Proof. eexists. vm_compute. reflexivity. Qed.
