(* C01 — formatting preserves the syntax tree. Statements, `exact` proofs, pins, assumption reports. *)
From TV Require Import Conv Format Render RenderProofs SeqProofs ConvProofs ParenProofs MarkupProofs MathProofs Post FlowProofs ListProofs ChainProofs Sig SigLayout SigTree SigScope SigConv Attr.

(* The full property mentions re-parsing; the parser is outside the model (DESIGN.md section 3), so the
   full statement is given over an abstract parser and an abstract skeleton. It is NOT proved: what is
   proved below are its parser-free mechanisms, for every tree, configuration and width. *)
Section Full.
  Variable parse : str -> tree.
  Variable skel : tree -> list N.
  Variable swidth : str -> N.
  Definition C01_full : Prop :=
    forall cfg src out n,
      erroneous (parse src) = false ->
      format_source swidth cfg (parse src) = FOk out n ->
      erroneous (parse out) = false /\ skel (parse out) = skel (parse src).
End Full.

(* (1) Token emission: at every width the output is the stripped concatenation of atoms of the
   converter's document, in document order; a group is flat or broken as a whole. *)
Theorem C01_output_atoms_partial :
  forall swidth cfg t out n,
    format_source swidth cfg t = FOk out n ->
    exists d es, convert_root swidth cfg t = Ok (d, n) /\
                 render_events (max_width cfg) d = Some es /\
                 out = strip (flatten_events es) /\
                 seqs d (map atom_of_event es) /\ lay MBreak d (map atom_of_event es).
Proof. exact format_output_atoms. Qed.
Check C01_output_atoms_partial :
  forall swidth cfg t out n,
    format_source swidth cfg t = FOk out n ->
    exists d es, convert_root swidth cfg t = Ok (d, n) /\
                 render_events (max_width cfg) d = Some es /\
                 out = strip (flatten_events es) /\
                 seqs d (map atom_of_event es) /\ lay MBreak d (map atom_of_event es).
Print Assumptions C01_output_atoms_partial.

(* (2) Optional delimiters (parened_expr.rs): laid out flat the body stays on one line and gets no
   delimiters; laid out broken it is enclosed in them. *)
Theorem C01_optional_paren_sound :
  forall swidth cfg body op cl x,
    lay MBreak (optional_paren swidth cfg body op cl) x ->
    (flat_has_line body = false /\ lay MFlat body x /\ ~ In ALine x)
    \/ (exists b, lay MBreak body b /\ x = text_atoms op ++ [ALine] ++ b ++ [ALine] ++ text_atoms cl).
Proof. exact optional_paren_sound. Qed.
Check C01_optional_paren_sound :
  forall swidth cfg body op cl x,
    lay MBreak (optional_paren swidth cfg body op cl) x ->
    (flat_has_line body = false /\ lay MFlat body x /\ ~ In ALine x)
    \/ (exists b, lay MBreak body b /\ x = text_atoms op ++ [ALine] ++ b ++ [ALine] ++ text_atoms cl).
Print Assumptions C01_optional_paren_sound.

(* (3) Markup is re-emitted line by line in source order (see C08 for the statement's reading). *)
Theorem C01_markup_source_lines :
  forall kids, sub_ws (all_nodes (mr_lines (collect_markup_repr kids))) kids /\
               kept_spaces_ok (all_nodes (mr_lines (collect_markup_repr kids))).
Proof. exact repr_lines_are_source_lines. Qed.
Check C01_markup_source_lines :
  forall kids, sub_ws (all_nodes (mr_lines (collect_markup_repr kids))) kids /\
               kept_spaces_ok (all_nodes (mr_lines (collect_markup_repr kids))).
Print Assumptions C01_markup_source_lines.

(* non-vacuity: `#f(1,2)` is accepted and rendered with its four tokens in order *)
Definition ex_call : tree :=
  Inner KMarkup [Leaf KHash [35] no_attrs;
    Inner KFuncCall [Leaf KIdent [102] no_attrs;
      Inner KArgs [Leaf KLeftParen [40] no_attrs; Leaf KInt [49] no_attrs; Leaf KComma [44] no_attrs;
                   Leaf KInt [50] no_attrs; Leaf KRightParen [41] no_attrs] no_attrs] no_attrs] no_attrs.
Example C01_example :
  exists n, format_source (fun s => N.of_nat (length s)) CliGen.cfg_default ex_call = FOk [35;102;40;49;44;32;50;41;10] n.
Proof. eexists. vm_compute. reflexivity. Qed.

(* the flow stylist (about 25 converters are built on it: let, set, show, for, while, closure, named, keyed, spread,
   unary, heading, list items, math attach/frac/root, import items ...) conserves what it is handed: whatever branch
   of a flat_alt is taken, the atoms of its document are exactly the atoms of the documents pushed for the children,
   in child order, with nothing but blanks and line breaks between them; and what is pushed for a child is the
   keyword's own text, the comment's document, the hash, or what the converter's producer returned for that child *)
Theorem C01_flow_stylist_conserves :
  forall swidth S (c : ctx) children (s0 : S) producer n d n' x,
    flow_like_iter swidth c children s0 producer n = Ok (d, n') -> seqs d x ->
    exists ops xs, Forall2 (op_for swidth producer) children ops /\ Forall2 seqs (map fop_doc ops) xs /\
                   solid x = solid (concat xs).
Proof. exact flow_like_iter_conserves. Qed.
Check C01_flow_stylist_conserves :
  forall swidth S (c : ctx) children (s0 : S) producer n d n' x,
    flow_like_iter swidth c children s0 producer n = Ok (d, n') -> seqs d x ->
    exists ops xs, Forall2 (op_for swidth producer) children ops /\ Forall2 seqs (map fop_doc ops) xs /\
                   solid x = solid (concat xs).
Print Assumptions C01_flow_stylist_conserves.

(* the same for the plain stylist (table-like argument lists) *)
Theorem C01_plain_stylist_conserves :
  forall swidth items ml x,
    seqs (plain_print_doc swidth items ml) x ->
    exists xs, Forall2 seqs (map fop_doc (map (plain_op swidth) items)) xs /\ solid x = solid (concat xs).
Proof. exact plain_print_conserves. Qed.
Print Assumptions C01_plain_stylist_conserves.

(* the list stylist (array, dict, arguments, parameters, destructuring, parenthesized, code block, import items,
   equation): from an empty stylist, the printed list has exactly the atoms of what was pushed for the nodes --
   the item document the converter's checker returned, the comment's document, a re-emitted hash -- in node order,
   with only blanks, line breaks and the style's own separator and delimiters between them, whatever the fold
   style, the list style and the branch taken at each flat_alt *)
Theorem C01_list_stylist_conserves :
  forall swidth cfg (l0 : lst) (c : ctx) nodes checker n l' n' sty x,
    l_items l0 = [] -> l_free l0 = [] ->
    lst_process swidth l0 c nodes checker n = Ok (l', n') ->
    seqs (lst_doc swidth cfg l' sty) x ->
    exists ops xs, Forall2 (lop_for swidth checker) nodes ops /\
                   Forall2 seqs (pushed_by swidth l0 ops) xs /\ kept sty x = kept sty (concat xs).
Proof. exact lst_process_conserves. Qed.
Print Assumptions C01_list_stylist_conserves.

(* the chain stylist's printer (dot chains, binary chains): bodies, operators and comments reach the document in
   chain order; the side condition holds of every chain the builder produces *)
Theorem C01_chain_printer_conserves :
  forall swidth tab (c : chain) (csty : chain_style) d x,
    attached_ok false (ch_items c) = true ->
    chain_print_doc swidth tab c csty = Ok d -> seqs d x ->
    exists xs, Forall2 seqs (flat_map chain_item_docs (ch_items c)) xs /\ kept sty0 x = kept sty0 (concat xs).
Proof. exact chain_print_conserves. Qed.
Theorem C01_chain_builder_attaches_after_a_body :
  forall swidth S c nodes (s0 : S) pred opc rhs fb n ch n',
    chain_process swidth c nodes s0 pred opc rhs fb n = Ok (ch, n') -> attached_ok false (ch_items ch) = true.
Proof. intros swidth S c nodes s0 pred opc rhs fb n ch n' H. exact (chain_process_attached_ok swidth c nodes s0 pred opc rhs fb n ch n' H). Qed.
Print Assumptions C01_chain_printer_conserves.
Print Assumptions C01_chain_builder_attaches_after_a_body.

(* builder and printer of the chain stylist together: the atoms of a dot chain's or binary chain's document are the
   atoms of what the collecting loop obtained -- operators, right-hand sides, comments, and the conversions of the
   non-operand nodes, glued to the preceding body -- per node of the resolved chain and per child, in order *)
Theorem C01_chain_stylist_conserves :
  forall swidth tab S c nodes (s0 : S) pred opc rhs fb n ch n' csty d x,
    chain_process swidth c nodes s0 pred opc rhs fb n = Ok (ch, n') ->
    chain_print_doc swidth tab ch csty = Ok d -> seqs d x ->
    exists pss xs, Forall2 (outer_push_for swidth pred opc rhs fb) nodes pss /\
                   Forall2 seqs (flat_map cpush_docs (concat pss)) xs /\ kept sty0 x = kept sty0 (concat xs).
Proof. intros. eapply chain_conserves; eassumption. Qed.
Print Assumptions C01_chain_stylist_conserves.

(* ---- token conservation by signature (Sig.v, SigLayout.v, SigTree.v) ----
   The signature of a text is what is left when blanks and the delimiters ( ) [ ] { } $ , ; : are deleted.  A document
   that passes `sig_check` (both branches of every flat_alt have the same signature, and the flat reading has the
   signature of the source tree) has that signature on EVERY layout, so the rendered text - at any width - holds
   exactly the source's other characters, in order.  `sig_check` is evaluated by the extracted model on every case of
   the C01 check (obligation "signature certificate"), inside `sig_scope`. *)
Theorem C01_every_layout_has_the_signature :
  forall t d, sig_check t d = true -> forall x, seqs d x -> atoms_sig x = tsig t.
Proof.
  intros t d H x Hx. apply sig_check_spec in H. destruct H as [Hw He]. rewrite <- He. apply seqs_sig; assumption.
Qed.
Check C01_every_layout_has_the_signature :
  forall t d, sig_check t d = true -> forall x, seqs d x -> atoms_sig x = tsig t.
Print Assumptions C01_every_layout_has_the_signature.

Theorem C01_rendered_text_has_the_signature :
  forall swidth cfg t out n,
    format_source swidth cfg t = FOk out n ->
    exists d es, convert_root swidth cfg t = Ok (d, n) /\ render_events (max_width cfg) d = Some es /\
                 out = strip (flatten_events es) /\
                 (sig_check t d = true -> sig (flatten_events es) = tsig t).
Proof.
  intros swidth cfg t out n H. destruct (format_output_atoms swidth cfg t out n H) as (d & es & Hc & Hr & Ho & Hs & _).
  exists d, es. repeat split; try assumption. intros Hk. rewrite flatten_events_sig.
  apply (C01_every_layout_has_the_signature t d Hk). exact Hs.
Qed.
Check C01_rendered_text_has_the_signature :
  forall swidth cfg t out n,
    format_source swidth cfg t = FOk out n ->
    exists d es, convert_root swidth cfg t = Ok (d, n) /\ render_events (max_width cfg) d = Some es /\
                 out = strip (flatten_events es) /\
                 (sig_check t d = true -> sig (flatten_events es) = tsig t).
Print Assumptions C01_rendered_text_has_the_signature.

(* the stylists' printers are homomorphisms for the signature: whatever style, fold style and comment placement *)
Theorem C01_list_printer_signature :
  forall swidth tab l sty, quiet sty ->
    dsig (lst_print_doc swidth tab l sty) = isigs (l_items l) /\
    (Forall (fun it => iwsig it = true) (l_items l) -> wsig (lst_print_doc swidth tab l sty) = true).
Proof. intros. split; [apply lst_print_sig|apply lst_print_wsig]; assumption. Qed.
Print Assumptions C01_list_printer_signature.

Theorem C01_chain_printer_signature :
  forall swidth tab ch sty d,
    attached_ok false (ch_items ch) = true -> chain_print_doc swidth tab ch sty = Ok d ->
    dsig d = csigs (ch_items ch) /\ (Forall (fun it => cwsig it = true) (ch_items ch) -> wsig d = true).
Proof. exact chain_print_sig. Qed.
Print Assumptions C01_chain_printer_signature.

Theorem C01_plain_printer_signature :
  forall swidth items ml,
    dsig (plain_print_doc swidth items ml) = psigs items /\
    (Forall (fun it => pwsig it = true) items -> wsig (plain_print_doc swidth items ml) = true).
Proof. exact plain_print_sig. Qed.
Print Assumptions C01_plain_printer_signature.

(* non-vacuity: `#f(1,2)` passes the certificate; its signature is `#f12` *)
Example C01_example_signature :
  exists d n, convert_root (fun s => N.of_nat (length s)) CliGen.cfg_default ex_call = Ok (d, n) /\
              sig_check ex_call d = true /\ tsig ex_call = [35; 102; 49; 50].
Proof. eexists _, _. vm_compute. repeat split. Qed.

(* the converter conserves the signature: for every tree in the scope `sc` (SigScope.v: per kind, what the proof of its
   converter needs of the node's shape; kinds whose converter is not yet proved are outside) the document built for the
   tree is well-signed and has the tree's signature - hence so has every layout of it and the text rendered at any width.
   `sc (annotate t)` is evaluated by the extracted model on every parsed tree; the check reports the share in scope. *)
Theorem C01_converter_conserves_signature :
  forall swidth cfg t d n,
    reorder_import_items cfg = false -> sc (annotate t) = true ->
    convert_root swidth cfg t = Ok (d, n) -> dsig d = tsig t /\ wsig d = true.
Proof. exact convert_root_conserves. Qed.
Check C01_converter_conserves_signature :
  forall swidth cfg t d n,
    reorder_import_items cfg = false -> sc (annotate t) = true ->
    convert_root swidth cfg t = Ok (d, n) -> dsig d = tsig t /\ wsig d = true.
Print Assumptions C01_converter_conserves_signature.

Theorem C01_in_scope_every_layout_conserves :
  forall swidth cfg t d n x,
    reorder_import_items cfg = false -> sc (annotate t) = true ->
    convert_root swidth cfg t = Ok (d, n) -> seqs d x -> atoms_sig x = tsig t.
Proof.
  intros swidth cfg t d n x Hr Hs Hc Hx. destruct (convert_root_conserves swidth cfg t d n Hr Hs Hc) as [Hd Hw].
  rewrite <- Hd. apply seqs_sig; assumption.
Qed.
Print Assumptions C01_in_scope_every_layout_conserves.
