(* C15 — In-place modes write exactly the formatted text, only where they should. *)
From TV Require Import Cli CliProofs.

(* -i FILES: every write event targets a named file, writes F cfg (what the file held), and only when
   that differs; the resulting file system is the initial one with exactly these writes applied;
   nothing is printed; every path without a write event keeps its node (bytes; no write => no mtime change). *)
Theorem C15_inplace_files :
  forall F sty inputs f,
    let st := format_many F true false (to_config sty) inputs f in
    Forall (fun w : path * str * str =>
              In (fst (fst w)) inputs /\ F (to_config sty) (snd (fst w)) = Some (snd w) /\ snd w <> snd (fst w))
           (s_writes st) /\
    s_fs st = apply_writes f (s_writes st) /\
    s_printed st = [] /\
    (forall q, ~ In q (map w_path (s_writes st)) -> lookup (s_fs st) q = lookup f q).
Proof. exact inplace_files_discipline. Qed.
Print Assumptions C15_inplace_files.

(* format-all [DIR]: the same, with the visited paths being the walk of the root *)
Theorem C15_format_all :
  forall F sty dir f,
    let st := format_all F false (to_config sty) dir f in
    Forall (fun w : path * str * str =>
              In (fst (fst w)) (walk (root_of dir) f) /\ F (to_config sty) (snd (fst w)) = Some (snd w) /\ snd w <> snd (fst w))
           (s_writes st) /\
    s_fs st = apply_writes f (s_writes st) /\
    s_printed st = [] /\
    (forall q, ~ In q (map w_path (s_writes st)) -> lookup (s_fs st) q = lookup f q).
Proof. exact format_all_discipline. Qed.
Print Assumptions C15_format_all.

(* eligibility: a regular file with extension "typ", at or below the root, no component BELOW the root hidden
   (the root's own name is not tested: fix a8e4d33) *)
Theorem C15_walk_eligibility :
  forall r f p, In p (walk r f) ->
    exists n rest, In (p, n) f /\ strip_prefix r p = Some rest /\
                   forallb (fun c => negb (is_hidden c)) rest = true /\
                   is_regular n = true /\ has_typ_ext (last p []) = true.
Proof. exact walk_eligibility. Qed.
Print Assumptions C15_walk_eligibility.

(* a failing input neither stops nor affects the others, wherever it stands, and is reported *)
Theorem C15_failing_input_is_isolated :
  forall F sty l1 q l2 f,
    is_text (lookup f q) = false ->
    same_effects (format_many F true false (to_config sty) (l1 ++ q :: l2) f)
                 (format_many F true false (to_config sty) (l1 ++ l2) f) /\
    r_exit (run F (IFiles true false sty (l1 ++ q :: l2)) f) = 1.
Proof. exact failing_input_is_isolated. Qed.
Print Assumptions C15_failing_input_is_isolated.

Example C15_example :
  let F := fun (_ : config) (c : str) => if str_eqb c [97; 32; 32] then Some [97; 10] else if str_eqb c [40] then None else Some c in
  let f := [([[97]], FText [97; 32; 32]); ([[98]], FText [40]); ([[100]], FBin 7)] in
  let st := format_many F true false cfg_default [[[100]]; [[98]]; [[97]]; [[99]]] f in
  s_fs st = [([[97]], FText [97; 10]); ([[98]], FText [40]); ([[100]], FBin 7)] /\
  s_writes st = [([[97]], [97; 32; 32], [97; 10])] /\ s_errors st = 2%nat.
Proof. vm_compute. auto. Qed.
