(* C05 — totality: never panics or hangs; refuses exactly the erroneous inputs.
   Only statements, `exact` proofs, statement pins and assumption reports. *)
From TV Require Import Conv Format Render RenderProofs ConvProofs Post SafeBound AttrShape SchemaShape Total.
From TV.gen Require Import CliGen.

(* The full property over the model: for every tree the parser can return and every configuration the
   result is formatted text or the refusal, never a panic, and the refusal happens exactly for
   erroneous trees.  `swfc` is the part of the parser's output schema the converters rely on where they
   unwrap or slice (a MathDelimited starts and ends with an expression child, a Binary holds an operator token
   and none before its first operand, a FuncCall has an Args child whose left parenthesis, if any, comes first,
   a FieldAccess has a Dot); the C05 check evaluates the extracted `swfc` on every tree the parser hands over. *)
Definition C05_full : Prop :=
  forall (swidth : str -> N) (cfg : config) (t : tree),
    (erroneous t = true -> format_source swidth cfg t = FErr) /\
    (erroneous t = false -> kind_of t = KMarkup -> swfc t = true ->
       exists out n, format_source swidth cfg t = FOk out n).

Theorem C05_total : C05_full.
Proof.
  intros swidth cfg t. split.
  - intros He. apply format_err_iff_erroneous. exact He.
  - intros He Hk Hw. destruct (format_total swidth cfg t He Hk Hw) as (out & n & E & _). eauto.
Qed.
Check C05_total :
  forall (swidth : str -> N) (cfg : config) (t : tree),
    (erroneous t = true -> format_source swidth cfg t = FErr) /\
    (erroneous t = false -> kind_of t = KMarkup -> swfc t = true ->
       exists out n, format_source swidth cfg t = FOk out n).
Print Assumptions C05_total.

(* no Panic site of the converter is reachable from any admissible request on a schema-conforming tree *)
Theorem C05_no_panic_site :
  forall swidth cfg t r n,
    swfc t = true -> sreq_ok (build swidth cfg t) r ->
    exists d n', call (build swidth cfg t) r n = Ok (d, n') /\ n' <= n + 3 * N.of_nat (tree_size t).
Proof. exact conversions_total. Qed.
Check C05_no_panic_site :
  forall swidth cfg t r n,
    swfc t = true -> sreq_ok (build swidth cfg t) r ->
    exists d n', call (build swidth cfg t) r n = Ok (d, n') /\ n' <= n + 3 * N.of_nat (tree_size t).
Print Assumptions C05_no_panic_site.

(* the attribute passes keep the schema clause and the node count *)
Theorem C05_schema_survives_annotation : forall t, swfc (annotate t) = swfc t /\ tree_size (annotate t) = tree_size t.
Proof. intros t. split; [apply swfc_annotate|apply tree_size_annotate]. Qed.
Print Assumptions C05_schema_survives_annotation.

(* (1) refusal iff syntax errors *)
Theorem C05_refuses_iff_erroneous :
  forall swidth cfg t, format_source swidth cfg t = FErr <-> erroneous t = true.
Proof. exact format_err_iff_erroneous. Qed.
Check C05_refuses_iff_erroneous :
  forall swidth cfg t, format_source swidth cfg t = FErr <-> erroneous t = true.
Print Assumptions C05_refuses_iff_erroneous.

(* (2) the string-to-string entry point returns the input unchanged on refusal *)
Theorem C05_convenience_returns_input :
  forall swidth content t w, erroneous t = true -> format_with_width_tree swidth content t w = FOk content 0.
Proof. exact format_with_width_on_error. Qed.
Check C05_convenience_returns_input :
  forall swidth content t w, erroneous t = true -> format_with_width_tree swidth content t w = FOk content 0.
Print Assumptions C05_convenience_returns_input.

(* (3) never hangs: the converter is a total structural recursion (no fuel at all), and the renderer's
   fuel is sufficient for every document and every width *)
Theorem C05_renderer_terminates : forall width d, exists s, render width d = Some s.
Proof. exact render_total. Qed.
Check C05_renderer_terminates : forall width d, exists s, render width d = Some s.
Print Assumptions C05_renderer_terminates.

Theorem C05_never_out_of_fuel : forall swidth cfg t, format_source swidth cfg t <> FFuel.
Proof. exact format_never_out_of_fuel. Qed.
Check C05_never_out_of_fuel : forall swidth cfg t, format_source swidth cfg t <> FFuel.
Print Assumptions C05_never_out_of_fuel.

(* (4) partial: a well-formed tree yields text or a Panic at a named site, nothing else *)
Theorem C05_wellformed_total_partial :
  forall swidth cfg t, erroneous t = false ->
    (exists out n, format_source swidth cfg t = FOk out n) \/ (exists s, format_source swidth cfg t = FPanic s).
Proof. exact format_wellformed_total. Qed.
Check C05_wellformed_total_partial :
  forall swidth cfg t, erroneous t = false ->
    (exists out n, format_source swidth cfg t = FOk out n) \/ (exists s, format_source swidth cfg t = FPanic s).
Print Assumptions C05_wellformed_total_partial.

(* (5) partial-operation sites excluded unconditionally: comment.rs unwrap / unreachable *)
Theorem C05_comment_sites_unreachable :
  forall swidth t, is_comment_node t = true -> exists d, comment swidth t = Ok d.
Proof. exact comment_no_panic. Qed.
Check C05_comment_sites_unreachable :
  forall swidth t, is_comment_node t = true -> exists d, comment swidth t = Ok d.
Print Assumptions C05_comment_sites_unreachable.

(* non-vacuity: a concrete well-formed document is accepted, a concrete erroneous one refused *)
Definition ex_ok : tree :=
  Inner KMarkup [Leaf KHash [35] no_attrs;
                 Inner KLetBinding [Leaf KLet [108;101;116] no_attrs; Leaf KSpace [32] no_attrs;
                                    Leaf KIdent [120] no_attrs; Leaf KSpace [32] no_attrs;
                                    Leaf KEq [61] no_attrs; Leaf KSpace [32;32] no_attrs;
                                    Leaf KInt [49] no_attrs] no_attrs] no_attrs.
Example C05_example_accepts :
  format_source (fun s => N.of_nat (length s)) cfg_default ex_ok = FOk [35;108;101;116;32;120;32;61;32;49;10] 6.
Proof. vm_compute. reflexivity. Qed.
Example C05_example_refuses :
  format_source (fun s => N.of_nat (length s)) cfg_default (Inner KMarkup [Leaf KError [41] no_attrs] no_attrs) = FErr.
Proof. vm_compute. reflexivity. Qed.

Example C05_example_schema : swfc ex_ok = true.
Proof. vm_compute. reflexivity. Qed.
