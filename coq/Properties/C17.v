(* C17 — formatting is a pure, deterministic function of text and configuration.
   (a) audit obligations over gen/StateAudit.v, REGENERATED from the library's sources on every run;
   (b) the library as a state machine over the audited state: every call of every history returns the
       function's value. *)
From Coq Require Import List NArith String.
From TV Require Import Conv Format.
From TV.gen Require Import StateAudit.
Import ListNotations.

(* (a) no global / interior-mutable state, no ambient input, no exposure of hash iteration order in
   typstyle-core; the only state is in the cfg-guarded verification hooks *)
Theorem C17_audit_clean :
  state_cells = [] /\ ambient_inputs = [] /\ hash_order_uses = [] /\ hooks_are_cfg_guarded = true.
Proof. repeat split; reflexivity. Qed.
Check C17_audit_clean :
  state_cells = [] /\ ambient_inputs = [] /\ hash_order_uses = [] /\ hooks_are_cfg_guarded = true.
Print Assumptions C17_audit_clean.

(* (b) The state a call can read or leave behind is the product of the audited cells: with the audit clean
   it is the unit type. A history is any sequence of calls (text already parsed; configuration); calls made
   concurrently are serialised in some order (each call is atomic w.r.t. the empty shared state). *)
Section History.
  Variable swidth : str -> N.
  Definition lib_state : Type := unit.
  Definition call : Type := (config * tree)%type.
  Definition step (s : lib_state) (c : call) : lib_state * fres := (s, format_source swidth (fst c) (snd c)).

  Fixpoint run_history (s : lib_state) (h : list call) : list fres :=
    match h with
    | [] => []
    | c :: r => let (s', o) := step s c in o :: run_history s' r
    end.

  Lemma run_history_spec : forall h s, run_history s h = map (fun c => format_source swidth (fst c) (snd c)) h.
  Proof. induction h as [|c h IH]; intros s; cbn; [reflexivity|]. rewrite IH. reflexivity. Qed.

  (* every call in every history (hence in every interleaving of concurrent calls, and whatever was formatted
     before) returns exactly the function's value *)
  Theorem history_independent :
    forall (before after : list call) (c : call) s,
      nth_error (run_history s (before ++ c :: after)) (length before) = Some (format_source swidth (fst c) (snd c)).
  Proof.
    intros before after c s. rewrite run_history_spec, map_app. cbn [map].
    rewrite nth_error_app2; rewrite map_length; [|apply le_n].
    rewrite PeanoNat.Nat.sub_diag. reflexivity.
  Qed.

  (* permuting the other calls does not change a call's result *)
  Theorem order_independent :
    forall (h1 h2 : list call) (c : call) s1 s2,
      In (format_source swidth (fst c) (snd c)) (run_history s1 (h1 ++ [c])) /\
      last (run_history s1 (h1 ++ [c])) FErr = last (run_history s2 (h2 ++ [c])) FErr.
  Proof.
    intros h1 h2 c s1 s2. rewrite !run_history_spec, !map_app. cbn [map]. split.
    - apply in_or_app. right. left. reflexivity.
    - rewrite !last_last. reflexivity.
  Qed.
End History.

Theorem C17_history_independent :
  forall swidth (before after : list call) (c : call) s,
    nth_error (run_history swidth s (before ++ c :: after)) (length before) = Some (format_source swidth (fst c) (snd c)).
Proof. exact history_independent. Qed.
Check C17_history_independent :
  forall swidth (before after : list call) (c : call) s,
    nth_error (run_history swidth s (before ++ c :: after)) (length before) = Some (format_source swidth (fst c) (snd c)).
Print Assumptions C17_history_independent.

Theorem C17_order_independent :
  forall swidth (h1 h2 : list call) (c : call) s1 s2,
    In (format_source swidth (fst c) (snd c)) (run_history swidth s1 (h1 ++ [c])) /\
    last (run_history swidth s1 (h1 ++ [c])) FErr = last (run_history swidth s2 (h2 ++ [c])) FErr.
Proof. exact order_independent. Qed.
Print Assumptions C17_order_independent.
