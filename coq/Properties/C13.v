(* C13 — range formatting is safe to splice: range arithmetic, node cover, refusal. *)
From TV Require Import Conv Partial PartialProofs SafeBound RangeTotal.

Section Full.
  Variable parse : str -> tree.
  Variable skel : tree -> list N.
  Variable swidth : str -> N.
  (* not proved: that the spliced text re-parses to an equivalent tree (needs the parser; cf. C01) *)
  Definition C13_full : Prop :=
    forall cfg src a b r1 r2 out pre mid post,
      format_range swidth cfg (parse src) a b = ROk r1 r2 out ->
      src = pre ++ mid ++ post -> byte_len pre = r1 -> byte_len (pre ++ mid) = r2 ->
      erroneous (parse (pre ++ out ++ post)) = false /\ skel (parse (pre ++ out ++ post)) = skel (parse src).
End Full.

(* (1) for every request a <= b whose ends are on char boundaries or past the end of the text, clamping and
   trimming never fail, and give a sub-range on char boundaries that holds exactly the trimmed text *)
Theorem C13_range_arithmetic_total :
  forall (t : tree) a b,
    let s := into_text t in
    let len := byte_len s in
    (on_boundary s a \/ len <= a) -> (on_boundary s b \/ len <= b) -> a <= b ->
    exists x rs re,
      slice s (N.min a len) (N.min b len) = Some x /\
      trim_range s (N.min a len) (N.min b len) = Ok (rs, re) /\
      N.min a len <= rs /\ rs <= re /\ re <= N.min b len /\
      slice s rs re = Some (trim_start (trim_end x)).
Proof. exact range_arithmetic_total. Qed.
Check C13_range_arithmetic_total :
  forall (t : tree) a b,
    let s := into_text t in
    let len := byte_len s in
    (on_boundary s a \/ len <= a) -> (on_boundary s b \/ len <= b) -> a <= b ->
    exists x rs re,
      slice s (N.min a len) (N.min b len) = Some x /\
      trim_range s (N.min a len) (N.min b len) = Ok (rs, re) /\
      N.min a len <= rs /\ rs <= re /\ re <= N.min b len /\
      slice s rs re = Some (trim_start (trim_end x)).
Print Assumptions C13_range_arithmetic_total.

(* (2) the node found covers the range, is a Markup / Expr / Pattern node of the tree, on node boundaries *)
Theorem C13_cover_sound :
  forall t off m parent rs re n o m' p',
    cover t off m parent rs re = Some (n, o, m', p') ->
    o <= rs /\ re <= o + byte_size n /\ coverable n = true /\ subtree_at t off n o.
Proof. exact cover_sound. Qed.
Check C13_cover_sound :
  forall t off m parent rs re n o m' p',
    cover t off m parent rs re = Some (n, o, m', p') ->
    o <= rs /\ re <= o + byte_size n /\ coverable n = true /\ subtree_at t off n o.
Print Assumptions C13_cover_sound.

(* (3) the indentation lookup at a node start never fails (node starts are char boundaries) *)
Theorem C13_indent_lookup_total :
  forall t n o, subtree_at t 0 n o -> exists k, count_spaces_after_last_newline (into_text t) o = Ok k.
Proof. exact indent_lookup_total. Qed.
Print Assumptions C13_indent_lookup_total.

(* (4) a successful call returns the byte range of a non-erroneous covering node that contains the trimmed request *)
Theorem C13_result_is_covering_node :
  forall swidth cfg t a b r1 r2 out,
    format_range swidth cfg t a b = ROk r1 r2 out ->
    let s := into_text t in
    let len := byte_len s in
    exists rs re node m p,
      trim_range s (N.min a len) (N.min b len) = Ok (rs, re) /\
      cover t 0 (LMarkup, false) None rs (N.min re len) = Some (node, r1, m, p) /\
      r2 = r1 + byte_size node /\ erroneous node = false /\ coverable node = true /\
      r1 <= rs /\ N.min re len <= r2 /\ subtree_at t 0 node r1.
Proof. exact format_range_result. Qed.
Check C13_result_is_covering_node :
  forall swidth cfg t a b r1 r2 out,
    format_range swidth cfg t a b = ROk r1 r2 out ->
    let s := into_text t in
    let len := byte_len s in
    exists rs re node m p,
      trim_range s (N.min a len) (N.min b len) = Ok (rs, re) /\
      cover t 0 (LMarkup, false) None rs (N.min re len) = Some (node, r1, m, p) /\
      r2 = r1 + byte_size node /\ erroneous node = false /\ coverable node = true /\
      r1 <= rs /\ N.min re len <= r2 /\ subtree_at t 0 node r1.
Print Assumptions C13_result_is_covering_node.

(* (5) no covering node, or an erroneous one, is refused *)
Theorem C13_refuses_erroneous :
  forall swidth cfg t a b rs re,
    trim_range (into_text t) (N.min a (byte_len (into_text t))) (N.min b (byte_len (into_text t))) = Ok (rs, re) ->
    (cover t 0 (LMarkup, false) None rs (N.min re (byte_len (into_text t))) = None \/
     exists node o m p, cover t 0 (LMarkup, false) None rs (N.min re (byte_len (into_text t))) = Some (node, o, m, p) /\ erroneous node = true) ->
    format_range swidth cfg t a b = RErr.
Proof. exact format_range_refuses. Qed.
Print Assumptions C13_refuses_erroneous.

(* non-vacuity: `#let x = 1` + LF with the request 0..100 (past the end): the let binding is returned *)
Definition ex_let : tree :=
  Inner KMarkup [Leaf KHash [35] no_attrs;
    Inner KLetBinding [Leaf KLet [108;101;116] no_attrs; Leaf KSpace [32] no_attrs; Leaf KIdent [120] no_attrs;
                       Leaf KSpace [32] no_attrs; Leaf KEq [61] no_attrs; Leaf KSpace [32] no_attrs;
                       Leaf KInt [49] no_attrs] no_attrs; Leaf KSpace [10] no_attrs] no_attrs.
Example C13_example :
  format_range (fun s => N.of_nat (length s)) CliGen.cfg_default ex_let 0 100 = ROk 0 11 [35;108;101;116;32;120;32;61;32;49;10].
Proof. vm_compute. reflexivity. Qed.

(* (6) range formatting answers with text or the refusal for every request a <= b on char boundaries, provided the
   node it would format conforms to the schema clause (SafeBound.swfc; the check evaluates it on that node for every
   case): no Panic site of the range arithmetic, the indentation lookup or the converters is reachable and the
   renderer's fuel suffices.  The rest of the tree may even hold syntax errors. *)
Theorem C13_range_total :
  forall swidth cfg (t : tree) a b,
    let s := into_text t in
    let len := byte_len s in
    (on_boundary s a \/ len <= a) -> (on_boundary s b \/ len <= b) -> a <= b ->
    (forall node, range_node t a b = Some node -> erroneous node = false -> swfc node = true) ->
    format_range swidth cfg t a b = RErr \/ exists r1 r2 out, format_range swidth cfg t a b = ROk r1 r2 out.
Proof. exact format_range_total. Qed.
Check C13_range_total :
  forall swidth cfg (t : tree) a b,
    let s := into_text t in
    let len := byte_len s in
    (on_boundary s a \/ len <= a) -> (on_boundary s b \/ len <= b) -> a <= b ->
    (forall node, range_node t a b = Some node -> erroneous node = false -> swfc node = true) ->
    format_range swidth cfg t a b = RErr \/ exists r1 r2 out, format_range swidth cfg t a b = ROk r1 r2 out.
Print Assumptions C13_range_total.
