(* C14 — Check mode is read-only and its exit status is truthful.
   Only property theorems, pins of their statements, and their assumptions.
   F : config -> str -> option str is ANY library function (None = syntax error). *)
From TV Require Import Cli CliProofs.

(* With --check, whatever the invocation shape and style options: the file system is unchanged,
   no write event is issued (so no modification time can change) and no formatted text is printed.
   (--check together with --inplace is rejected: taken from the generated CliGen.v.) *)
Theorem C14_check_mode_read_only :
  forall F inv f, inv_check inv = true ->
    s_fs (r_state (run F inv f)) = f /\ s_printed (r_state (run F inv f)) = [] /\ s_writes (r_state (run F inv f)) = [].
Proof. exact check_mode_read_only. Qed.
Print Assumptions C14_check_mode_read_only.

(* ... and so does any history of check invocations *)
Theorem C14_check_history_read_only :
  forall F invs f, forallb inv_check invs = true -> run_history F invs f = f.
Proof. exact check_history_read_only. Qed.
Print Assumptions C14_check_history_read_only.

(* exit status 1 exactly when a readable well-formed input differs from its formatted form, or an
   I/O error occurred; files with syntax errors (F = None) count as unchanged *)
Theorem C14_check_exit_files :
  forall F sty inputs f, inputs <> [] ->
    r_exit (run F (IFiles false true sty inputs) f) = 1 <->
    exists p, In p inputs /\
      ((exists c r, lookup f p = Some (FText c) /\ F (to_config sty) c = Some r /\ r <> c) \/
       match lookup f p with Some (FText _) => False | _ => True end).
Proof. exact check_exit_files. Qed.
Print Assumptions C14_check_exit_files.

Theorem C14_check_exit_format_all :
  forall F sty dir f,
    r_exit (run F (IAll false true sty dir) f) = 1 <->
    (root_missing (root_of dir) f = true \/
     exists p, In p (walk (root_of dir) f) /\
       ((exists c r, lookup f p = Some (FText c) /\ F (to_config sty) c = Some r /\ r <> c) \/
        match lookup f p with Some (FText _) => False | _ => True end)).
Proof. exact check_exit_all. Qed.
Print Assumptions C14_check_exit_format_all.

Theorem C14_check_exit_stdin :
  forall F sty input f,
    r_exit (run F (IStdin false true sty input) f) = 1 <->
    match input with
    | Some c => exists r, F (to_config sty) c = Some r /\ r <> c
    | None => True
    end.
Proof. exact check_exit_stdin. Qed.
Print Assumptions C14_check_exit_stdin.

Theorem C14_exit_codes :
  forall F inv f, r_exit (run F inv f) = 0 \/ r_exit (run F inv f) = 1 \/ r_exit (run F inv f) = 2.
Proof. exact exit_is_0_or_1_when_accepted. Qed.
Print Assumptions C14_exit_codes.

(* non-vacuity: a concrete tree where the check exit is 1 for the right reason *)
Example C14_example :
  let F := fun (_ : config) (c : str) => if str_eqb c [97; 32; 32] then Some [97; 10] else Some c in
  let f := [([[97]], FText [97; 32; 32]); ([[98]], FText [98; 10])] in
  r_exit (run F (IFiles false true cli_default_style [[[98]]; [[97]]]) f) = 1 /\
  r_exit (run F (IFiles false true cli_default_style [[[98]]]) f) = 0 /\
  r_exit (run F (IFiles false true cli_default_style [[[98]]; [[99]]]) f) = 1.
Proof. vm_compute. auto. Qed.
