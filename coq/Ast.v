(* Ast.v — the typed views of typst_syntax::ast that typstyle uses: which kinds each `cast`
   accepts, and the accessors with their placeholder defaults (unwrap_or_default). *)
From TV Require Export Tree.

(* Expr::from_untyped (ast.rs): note that Space is NOT an Expr here (only cast_with_space accepts it) *)
Definition is_expr_kind (k : kind) : bool :=
  match k with
  | KLinebreak | KParbreak | KText | KEscape | KShorthand | KSmartQuote | KStrong | KEmph | KRaw
  | KLink | KLabel | KRef | KHeading | KListItem | KEnumItem | KTermItem | KEquation | KMath
  | KMathText | KMathIdent | KMathShorthand | KMathAlignPoint | KMathDelimited | KMathAttach
  | KMathPrimes | KMathFrac | KMathRoot | KIdent | KNone | KAuto | KBool | KInt | KFloat
  | KNumeric | KStr | KCodeBlock | KContentBlock | KParenthesized | KArray | KDict | KUnary
  | KBinary | KFieldAccess | KFuncCall | KClosure | KLetBinding | KDestructAssignment | KSetRule
  | KShowRule | KContextual | KConditional | KWhileLoop | KForLoop | KModuleImport
  | KModuleInclude | KLoopBreak | KLoopContinue | KFuncReturn => true
  | _ => false
  end.

Definition is_expr (t : tree) : bool := is_expr_kind (kind_of t).

(* Pattern::from_untyped: Underscore | Parenthesized | Destructuring | any Expr *)
Definition is_pattern (t : tree) : bool :=
  match kind_of t with
  | KUnderscore | KParenthesized | KDestructuring => true
  | k => is_expr_kind k
  end.

(* Arg, ArrayItem, DictItem, Param, DestructuringItem *)
Definition is_arg (t : tree) : bool :=
  match kind_of t with KNamed | KSpread => true | k => is_expr_kind k end.
Definition is_array_item (t : tree) : bool :=
  match kind_of t with KSpread => true | k => is_expr_kind k end.
Definition is_dict_item (t : tree) : bool :=
  match kind_of t with KNamed | KKeyed | KSpread => true | _ => false end.
Definition is_param (t : tree) : bool :=
  match kind_of t with KNamed | KSpread => true | _ => is_pattern t end.
Definition is_destructuring_item (t : tree) : bool := is_param t.

(* SyntaxNode::placeholder(kind): a leaf with empty text and a detached span (no attributes) *)
Definition placeholder (k : kind) : tree := Leaf k [] no_attrs.
Definition expr_default : tree := placeholder KNone.   (* Expr::default() = Expr::None(placeholder) *)

Definition find_first (p : tree -> bool) (l : list tree) : option tree := find p l.
Definition find_last (p : tree -> bool) (l : list tree) : option tree := find p (rev l).

Definition cast_first (p : tree -> bool) (t : tree) : option tree := find_first p (children t).
Definition cast_last (p : tree -> bool) (t : tree) : option tree := find_last p (children t).

Definition or_default (o : option tree) (d : tree) : tree := match o with Some x => x | None => d end.

(* accessors *)
Definition first_expr (t : tree) : tree := or_default (cast_first is_expr t) expr_default.
Definition last_expr (t : tree) : tree := or_default (cast_last is_expr t) expr_default.

Definition func_call_callee := first_expr.
Definition func_call_args (t : tree) : tree := or_default (cast_last (is_kind KArgs) t) (placeholder KArgs).
Definition field_access_target := first_expr.
Definition field_access_field (t : tree) : tree := or_default (cast_last (is_kind KIdent) t) (placeholder KIdent).
Definition binary_lhs := first_expr.
Definition parenthesized_expr := first_expr.
Definition parenthesized_pattern (t : tree) : tree := or_default (cast_first is_pattern t) expr_default.
Definition named_name (t : tree) : tree := or_default (cast_first (is_kind KIdent) t) (placeholder KIdent).
Definition named_expr := last_expr.
Definition spread_expr := first_expr.
Definition code_block_body (t : tree) : tree := or_default (cast_first (is_kind KCode) t) (placeholder KCode).
Definition content_block_body (t : tree) : tree := or_default (cast_first (is_kind KMarkup) t) (placeholder KMarkup).
Definition markup_body := content_block_body.   (* Strong/Emph/Heading/ListItem...::body *)
Definition closure_name (t : tree) : option tree :=
  match children t with
  | c :: _ => if is_kind KIdent c then Some c else None
  | [] => None
  end.

(* UnOp / BinOp *)
Inductive unop := UPos | UNeg | UNot.
Definition unop_from_kind (k : kind) : option unop :=
  match k with KPlus => Some UPos | KMinus => Some UNeg | KNot => Some UNot | _ => None end.
Definition unary_op (t : tree) : unop :=
  match find_first (fun c => match unop_from_kind (kind_of c) with Some _ => true | None => false end) (children t) with
  | Some c => match unop_from_kind (kind_of c) with Some o => o | None => UPos end
  | None => UPos
  end.

Inductive binop :=
| BAdd | BSub | BMul | BDiv | BAnd | BOr | BEq | BNeq | BLt | BLeq | BGt | BGeq | BAssign | BIn | BNotIn
| BAddAssign | BSubAssign | BMulAssign | BDivAssign.

Definition binop_from_kind (k : kind) : option binop :=
  match k with
  | KPlus => Some BAdd | KMinus => Some BSub | KStar => Some BMul | KSlash => Some BDiv
  | KAnd => Some BAnd | KOr => Some BOr | KEqEq => Some BEq | KExclEq => Some BNeq
  | KLt => Some BLt | KLtEq => Some BLeq | KGt => Some BGt | KGtEq => Some BGeq
  | KEq => Some BAssign | KIn => Some BIn | KPlusEq => Some BAddAssign | KHyphEq => Some BSubAssign
  | KStarEq => Some BMulAssign | KSlashEq => Some BDivAssign
  | _ => None
  end.

Definition binop_precedence (o : binop) : N :=
  match o with
  | BMul | BDiv => 6
  | BAdd | BSub => 5
  | BEq | BNeq | BLt | BLeq | BGt | BGeq | BIn | BNotIn => 4
  | BAnd => 3
  | BOr => 2
  | BAssign | BAddAssign | BSubAssign | BMulAssign | BDivAssign => 1
  end.

Definition binop_eqb (a b : binop) : bool :=
  match a, b with
  | BAdd, BAdd | BSub, BSub | BMul, BMul | BDiv, BDiv | BAnd, BAnd | BOr, BOr | BEq, BEq | BNeq, BNeq
  | BLt, BLt | BLeq, BLeq | BGt, BGt | BGeq, BGeq | BAssign, BAssign | BIn, BIn | BNotIn, BNotIn
  | BAddAssign, BAddAssign | BSubAssign, BSubAssign | BMulAssign, BMulAssign | BDivAssign, BDivAssign => true
  | _, _ => false
  end.

Definition s_of_ascii (l : list N) : str := l.

Definition binop_as_str (o : binop) : str :=
  match o with
  | BAdd => [43] | BSub => [45] | BMul => [42] | BDiv => [47]
  | BAnd => [97; 110; 100] | BOr => [111; 114]
  | BEq => [61; 61] | BNeq => [33; 61] | BLt => [60] | BLeq => [60; 61] | BGt => [62] | BGeq => [62; 61]
  | BIn => [105; 110] | BNotIn => [110; 111; 116; 32; 105; 110]
  | BAssign => [61] | BAddAssign => [43; 61] | BSubAssign => [45; 61] | BMulAssign => [42; 61] | BDivAssign => [47; 61]
  end.

(* Binary::op: first child that is `in` after a `not` -> NotIn, else first child with a BinOp kind *)
Fixpoint binary_op_aux (cs : list tree) (seen_not : bool) : option binop :=
  match cs with
  | [] => None
  | c :: rest =>
      match kind_of c with
      | KNot => binary_op_aux rest true
      | k =>
          if kind_eqb k KIn && seen_not then Some BNotIn
          else match binop_from_kind k with
               | Some o => Some o
               | None => binary_op_aux rest seen_not
               end
      end
  end.
Definition binary_op (t : tree) : binop :=
  match binary_op_aux (children t) false with Some o => o | None => BAdd end.

(* Expr::is_literal *)
Definition is_literal (t : tree) : bool :=
  match kind_of t with KNone | KAuto | KBool | KInt | KFloat | KNumeric | KStr => true | _ => false end.

(* Equation::block *)
Definition nth_back {A} (n : nat) (l : list A) : option A := nth_error (rev l) n.
Definition equation_block (t : tree) : bool :=
  let cs := children t in
  match nth_error cs 1, nth_back 1 cs with
  | Some a, Some b => is_kind KSpace a && is_kind KSpace b
  | _, _ => false
  end.

(* Raw::block and Raw::lines().count() *)
Definition raw_block (t : tree) : bool :=
  match cast_first (is_kind KRawDelim) t with
  | Some d => (3 <=? byte_len (into_text d)) &&
              existsb (fun e => is_kind KRawTrimmed e && existsb is_typst_newline (text_of e)) (children t)
  | None => false
  end.
Definition raw_line_count (t : tree) : N := N.of_nat (length (filter (is_kind KText) (children t))).

(* Ref::target : text of the RefMarker without leading '@'s *)
Definition ref_target (t : tree) : str :=
  match find_first (is_kind KRefMarker) (children t) with
  | Some m => drop_while (fun c => c =? 64) (text_of m)
  | None => []
  end.
Definition ref_supplement (t : tree) : option tree := cast_last (is_kind KContentBlock) t.

(* MathPrimes::count *)
Definition math_primes_count (t : tree) : N := N.of_nat (length (filter (is_kind KPrime) (children t))).

(* ImportItemPath::name, RenamedImportItem::new_name : last Ident child *)
Definition last_ident_text (t : tree) : str :=
  match cast_last (is_kind KIdent) t with Some i => text_of i | None => [] end.

(* Int::get as usize for table columns: decimal / 0x / 0o / 0b; i64 parse failure gives 0.
   The cast `as usize` of a negative value cannot occur (an Int token has no sign). *)
Definition digit_val (c : N) : option N :=
  if (48 <=? c) && (c <=? 57) then Some (c - 48)
  else if (97 <=? c) && (c <=? 102) then Some (c - 87)
  else if (65 <=? c) && (c <=? 70) then Some (c - 55)
  else None.
Fixpoint parse_radix (radix : N) (s : str) (acc : N) : option N :=
  match s with
  | [] => Some acc
  | c :: s' =>
      match digit_val c with
      | Some d => if d <? radix then parse_radix radix s' (acc * radix + d) else None
      | None => None
      end
  end.
Definition i64_max : N := 9223372036854775807.
Definition int_get (text : str) : N :=
  let r :=
    match text with
    | 48 :: 120 :: rest => match rest with [] => None | _ => parse_radix 16 rest 0 end
    | 48 :: 111 :: rest => match rest with [] => None | _ => parse_radix 8 rest 0 end
    | 48 :: 98 :: rest => match rest with [] => None | _ => parse_radix 2 rest 0 end
    | [] => None
    | _ => parse_radix 10 text 0
    end in
  match r with
  | Some v => if v <=? i64_max then v else 0
  | None => 0
  end.
