(* Post.v — model of utils::strip_trailing_whitespace (crates/typstyle-core/src/utils.rs) *)
From TV Require Import Str.

Definition strip (s : str) : str :=
  match s with
  | [] => [LF]
  | _ => concat (map (fun l => trim_end l ++ [LF]) (lines s))
  end.

(* Output hygiene, as a proposition and as a boolean for the harness. *)
Definition line_ok (l : str) : Prop := l = [] \/ is_ws (last l 0) = false.
Definition hygiene (r : str) : Prop :=
  r <> [] /\ last r 0 = LF /\ Forall line_ok (split_lf r).

Definition line_ok_b (l : str) : bool :=
  match frev l with [] => true | c :: _ => negb (is_ws c) end.
Definition hygiene_b (r : str) : bool :=
  match frev r with
  | [] => false
  | c :: _ => (c =? LF) && forallb line_ok_b (split_lf r)
  end.
