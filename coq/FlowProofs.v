(* FlowProofs.v — C01/C06: the flow stylist neither drops nor reorders what it is handed.  The document it builds
   has, whatever branch of a flat_alt is taken, exactly the atoms of the pushed documents in push order, with
   nothing but blanks and line breaks between them; and `flow_like_iter` pushes, for each child in source order,
   the keyword's text, the comment's document, the hash, or what the producer returned for that child. *)
From TV Require Import Render RenderProofs SeqProofs Layout Conv.
From Coq Require Import Lia.

Definition ws_atom_b (a : atom) : bool :=
  match a with ALine => true | AText s => match s with [c] => c =? SP | _ => false end end.
Definition solid (x : list atom) : list atom := filter (fun a => negb (ws_atom_b a)) x.

Lemma solid_app x y : solid (x ++ y) = solid x ++ solid y.
Proof. unfold solid. apply filter_app. Qed.
Lemma solid_space : solid [AText [SP]] = [].
Proof. reflexivity. Qed.
Lemma solid_line : solid [ALine] = [].
Proof. reflexivity. Qed.

Section Flow.
  Variable swidth : str -> N.
  Variable tab : N.

  (* the operations of the flow stylist *)
  Inductive fop :=
  | FPush (d : doc) (sb sa : bool)        (* push_doc *)
  | FComment (d : doc) (blk : bool)       (* push_comment *)
  | FBreak                                (* hardline pushed after a line comment + enter_new_line *)
  | FSkip.

  Definition apply_fop (f : flow) (op : fop) : flow :=
    match op with
    | FPush d sb sa => flow_push_doc f d sb sa
    | FComment d blk => flow_push_comment f d blk
    | FBreak => flow_enter_new_line (flow_push_doc f hardline false false)
    | FSkip => f
    end.

  Definition fop_doc (op : fop) : doc :=
    match op with FPush d _ _ | FComment d _ => d | FBreak | FSkip => DNil end.

  Lemma push_doc_seqs f d sb sa x :
    seqs (f_doc (flow_push_doc f d sb sa)) x ->
    exists x0 xd, seqs (f_doc f) x0 /\ seqs d xd /\ solid x = solid (x0 ++ xd).
  Proof.
    unfold flow_push_doc. cbn [f_doc]. intros H.
    apply seqs_append in H. destruct H as (xa & xd & -> & Ha & Hd).
    destruct (sb && f_space_after f).
    - apply seqs_append in Ha. destruct Ha as (x0 & xs & -> & H0 & Hs).
      apply seqs_space in Hs. subst xs. exists x0, xd. repeat split; try assumption.
      rewrite !solid_app, solid_space, app_nil_r. reflexivity.
    - exists xa, xd. repeat split; assumption.
  Qed.

  Lemma apply_fop_seqs f op x :
    seqs (f_doc (apply_fop f op)) x ->
    exists x0 xd, seqs (f_doc f) x0 /\ seqs (fop_doc op) xd /\ solid x = solid (x0 ++ xd).
  Proof.
    destruct op as [d sb sa|d blk| |]; cbn [apply_fop fop_doc].
    - apply push_doc_seqs.
    - unfold flow_push_comment. destruct blk; [apply push_doc_seqs|].
      destruct (negb (f_line_start f)); intros H; apply push_doc_seqs in H; exact H.
    - unfold flow_enter_new_line. cbn [f_doc]. intros H. apply push_doc_seqs in H.
      destruct H as (x0 & xd & H0 & Hd & E). apply seqs_hardline in Hd. subst xd.
      exists x0, []. repeat split; [exact H0|constructor|].
      rewrite E, !solid_app, solid_line. reflexivity.
    - intros H. exists x, []. repeat split; [exact H|constructor|rewrite app_nil_r; reflexivity].
  Qed.

  (* the stylist conserves: atoms of the result = atoms of the start ++ atoms of every pushed document, in order *)
  Theorem flow_ops_conserve : forall ops f x,
    seqs (f_doc (fold_left apply_fop ops f)) x ->
    exists x0 xs, seqs (f_doc f) x0 /\ Forall2 seqs (map fop_doc ops) xs /\ solid x = solid (x0 ++ concat xs).
  Proof.
    induction ops as [|op ops IH]; intros f x H; cbn [fold_left map] in *.
    - exists x, []. repeat split; [exact H|constructor|cbn; rewrite app_nil_r; reflexivity].
    - apply IH in H. destruct H as (x1 & xs & H1 & Hxs & E).
      apply apply_fop_seqs in H1. destruct H1 as (x0 & xd & H0 & Hd & E1).
      exists x0, (xd :: xs). repeat split; [exact H0|constructor; assumption|].
      rewrite E, !solid_app, E1. cbn [concat]. rewrite !solid_app, <- !app_assoc. reflexivity.
  Qed.
End Flow.

Section FlowIter.
  Variable swidth : str -> N.
  Variable cfg : config.
  Notation text := (Doc.text swidth).

  (* what the loop of convert_flow_like_iter pushes for one child *)
  Definition op_for {S : Type} (producer : S -> ctx -> bundle -> M (S * option flow_item)) (child : bundle) (op : fop) : Prop :=
    let k := bk child in
    if is_keyword k && negb (kin k [KNone; KAuto]) then op = FPush (text (tx child)) true true
    else if is_comment_b child then
      exists d, comment swidth (bt child) = Ok d /\ op = FComment d (kind_eqb k KBlockComment)
    else
      (kind_eqb k KSpace && has_lb (tx child) = true /\ op = FBreak) \/
      (kind_eqb k KHash = true /\ op = FPush (text [35]) true false) \/
      (exists s c' n1 s' it n2, producer s c' child n1 = Ok ((s', it), n2) /\
         op = match it with Some i => FPush (fi_doc i) (fi_before i) (fi_after i) | None => FSkip end).

  Lemma flow_fold_ops {S : Type} (c : ctx) (producer : S -> ctx -> bundle -> M (S * option flow_item)) :
    forall children (fl : flow) plc ph (s : S) n fl' plc' ph' s' n',
      foldM (fun (st : flow * bool * bool * S) (child : bundle) =>
          let '(fl, peek_lc, peek_hash, s) := st in
          let k := bk child in
          if is_keyword k && negb (kin k [KNone; KAuto]) then
            ret (flow_push_doc fl (text (tx child)) true true, false, false, s)
          else if is_comment_b child then
            d <- convert_comment swidth child ;;
            ret (flow_push_comment fl d (kind_eqb k KBlockComment), kind_eqb k KLineComment, false, s)
          else if peek_lc && kind_eqb k KSpace && has_lb (tx child) then
            ret (flow_enter_new_line (flow_push_doc fl hardline false false), false, false, s)
          else if kind_eqb k KHash then
            ret (flow_push_doc fl (text [35]) true false, false, true, s)
          else
            let c' := with_mode_if c LCode peek_hash in
            r <- producer s c' child ;;
            let '(s', it) := r in
            ret (match it with
                 | Some i => flow_push_doc fl (fi_doc i) (fi_before i) (fi_after i)
                 | None => fl
                 end, false, false, s'))
        children (fl, plc, ph, s) n = Ok ((fl', plc', ph', s'), n') ->
      exists ops, Forall2 (op_for producer) children ops /\ fl' = fold_left apply_fop ops fl.
  Proof.
    induction children as [|child children IH]; intros fl plc ph s n fl' plc' ph' s' n' H.
    - cbn in H. inversion H; subst. exists []. split; [constructor|reflexivity].
    - cbn [foldM] in H. unfold bind at 1 in H.
      match type of H with match ?step n with _ => _ end = _ => destruct (step n) as [[[[[fl1 plc1] ph1] s1] n1]|] eqn:Es; [|discriminate] end.
      apply IH in H. destruct H as (ops & Hops & ->).
      assert (Hop : exists op, op_for producer child op /\ fl1 = apply_fop fl op).
      { clear - Es. unfold op_for.
        destruct (is_keyword (bk child) && negb (kin (bk child) [KNone; KAuto])).
        { inversion Es; subst. eexists. split; [reflexivity|reflexivity]. }
        destruct (is_comment_b child).
        { unfold bind, convert_comment, lift in Es. destruct (comment swidth (bt child)) as [d|] eqn:Ec; [|discriminate].
          cbn in Es. inversion Es; subst. exists (FComment d (kind_eqb (bk child) KBlockComment)).
          split; [exists d; auto|reflexivity]. }
        destruct (plc && kind_eqb (bk child) KSpace && has_lb (tx child)) eqn:Eb.
        { inversion Es; subst. exists FBreak. split; [|reflexivity]. left.
          apply andb_prop in Eb. destruct Eb as [Eb1 Eb2]. apply andb_prop in Eb1. destruct Eb1 as [_ Eb1].
          rewrite Eb1, Eb2. auto. }
        destruct (kind_eqb (bk child) KHash) eqn:Eh.
        { inversion Es; subst. eexists. split; [right; left; split; reflexivity|reflexivity]. }
        unfold bind in Es.
        destruct (producer s (with_mode_if c LCode ph) child n) as [[[s2 it] n2]|] eqn:Ep; [|discriminate].
        cbn in Es. inversion Es; subst.
        exists (match it with Some i => FPush (fi_doc i) (fi_before i) (fi_after i) | None => FSkip end).
        split; [right; right; exists s, (with_mode_if c LCode ph), n, s1, it, n1; auto|destruct it; reflexivity]. }
      destruct Hop as (op & Hop & ->).
      exists (op :: ops). split; [constructor; assumption|reflexivity].
  Qed.

  Theorem flow_like_iter_ops {S : Type} (c : ctx) children (s0 : S) producer n d n' :
    flow_like_iter swidth c children s0 producer n = Ok (d, n') ->
    exists ops, Forall2 (op_for producer) children ops /\ d = f_doc (fold_left apply_fop ops flow_new).
  Proof.
    unfold flow_like_iter. intros H. unfold bind at 1 in H.
    match type of H with match ?m n with _ => _ end = _ => destruct (m n) as [[[[[fl plc] ph] s] n1]|] eqn:Ef; [|discriminate] end.
    cbn in H. inversion H; subst.
    apply flow_fold_ops in Ef. destruct Ef as (ops & Hops & ->). exists ops. auto.
  Qed.

  (* the two halves: every flow-based converter's document has exactly the atoms of what was pushed for its
     children, in child order, with only blanks and line breaks in between *)
  Theorem flow_like_iter_conserves {S : Type} (c : ctx) children (s0 : S) producer n d n' x :
    flow_like_iter swidth c children s0 producer n = Ok (d, n') -> seqs d x ->
    exists ops xs, Forall2 (op_for producer) children ops /\ Forall2 seqs (map fop_doc ops) xs /\
                   solid x = solid (concat xs).
  Proof.
    intros H Hx. destruct (flow_like_iter_ops c children s0 producer n d n' H) as (ops & Hops & ->).
    destruct (flow_ops_conserve ops flow_new x Hx) as (x0 & xs & H0 & Hxs & E).
    cbn [flow_new f_doc] in H0. apply seqs_nil_inv in H0. subst x0.
    exists ops, xs. auto.
  Qed.
End FlowIter.

Section Plain.
  Variable swidth : str -> N.
  Notation text := (Doc.text swidth).

  (* layout/plain.rs print_doc is the flow stylist run over the collected items *)
  Definition plain_op (it : plain_item) : fop :=
    match it with
    | PItem body => FPush body true true
    | PComma => FPush (text [44]) false true
    | PLinebreak n => FPush (repeat_n hardline n) false false
    | PLineComment c => FPush c true false
    | PBlockComment c => FPush c true true
    end.

  Lemma plain_fold_ops items : forall f,
    fold_left (fun (f : flow) (it : plain_item) =>
                 match it with
                 | PItem body => flow_push_doc f body true true
                 | PComma => flow_push_doc f (text [44]) false true
                 | PLinebreak n => flow_push_doc f (repeat_n hardline n) false false
                 | PLineComment c => flow_push_doc f c true false
                 | PBlockComment c => flow_push_doc f c true true
                 end) items f
    = fold_left apply_fop (map plain_op items) f.
  Proof.
    induction items as [|it items IH]; intros f; [reflexivity|].
    cbn [fold_left map]. rewrite IH. destruct it; reflexivity.
  Qed.

  Theorem plain_print_conserves items ml x :
    seqs (plain_print_doc swidth items ml) x ->
    exists xs, Forall2 seqs (map fop_doc (map plain_op items)) xs /\ solid x = solid (concat xs).
  Proof.
    unfold plain_print_doc. rewrite plain_fold_ops. intros H.
    assert (Hcore : forall y, seqs (f_doc (fold_left apply_fop (map plain_op items) flow_new)) y ->
                    exists xs, Forall2 seqs (map fop_doc (map plain_op items)) xs /\ solid y = solid (concat xs)).
    { intros y Hy. destruct (flow_ops_conserve _ flow_new y Hy) as (x0 & xs & H0 & Hxs & E).
      cbn [flow_new f_doc] in H0. apply seqs_nil_inv in H0. subst x0. exists xs. auto. }
    destruct ml; [|apply Hcore; exact H].
    apply seqs_enclose in H. destruct H as (xa & xd & xb & -> & Ha & Hd & Hb).
    apply seqs_hardline in Ha. apply seqs_hardline in Hb. subst xa xb.
    destruct (Hcore xd Hd) as (xs & Hxs & E). exists xs. split; [exact Hxs|].
    rewrite !solid_app, solid_line, E. cbn [app]. rewrite app_nil_r. reflexivity.
  Qed.
End Plain.
