(* TabRel.v — C12: the document builders and the four layout stylists are parametric in the indent unit.
   `rdoc t1 t2 d d'`: d and d' are the same document except that a nest by the unit t1 in d may stand where d' has a
   nest by the unit t2 (every other nest is a literal, equal on both sides).  Every smart constructor and every
   stylist operation maps related arguments to related results; in particular no decision of a stylist looks at a
   nest amount.  The units must be non-zero: `nest 0 d` is `d` in the builder, so the unit 0 changes the shape. *)
From TV Require Export Layout Comment.
From Coq Require Import Lia.

Inductive ropt {A} (R : A -> A -> Prop) : option A -> option A -> Prop :=
| ropt_none : ropt R None None
| ropt_some a a' : R a a' -> ropt R (Some a) (Some a').
Definition rprod {A B} (RA : A -> A -> Prop) (RB : B -> B -> Prop) (p p' : A * B) : Prop :=
  RA (fst p) (fst p') /\ RB (snd p) (snd p').
Inductive rres {A} (R : A -> A -> Prop) : res A -> res A -> Prop :=
| rres_ok a a' : R a a' -> rres R (Ok a) (Ok a')
| rres_panic s : rres R (Panic s) (Panic s).

Lemma Forall2_rev {A B} (R : A -> B -> Prop) l l' : Forall2 R l l' -> Forall2 R (rev l) (rev l').
Proof.
  induction 1 as [|x y l l' Hxy H IH]; cbn; [constructor|].
  apply Forall2_app; [exact IH|]. constructor; [exact Hxy|constructor].
Qed.
Lemma Forall2_len {A B} (R : A -> B -> Prop) l l' : Forall2 R l l' -> length l = length l'.
Proof. induction 1; cbn; congruence. Qed.
Lemma Forall2_snoc {A B} (R : A -> B -> Prop) l l' x y : Forall2 R l l' -> R x y -> Forall2 R (l ++ [x]) (l' ++ [y]).
Proof. intros H Hx. apply Forall2_app; [exact H|]. constructor; [exact Hx|constructor]. Qed.
Lemma Forall2_nil_iff {A B} (R : A -> B -> Prop) l l' :
  Forall2 R l l' -> (match l with [] => true | _ => false end) = (match l' with [] => true | _ => false end).
Proof. destruct 1; reflexivity. Qed.
Lemma Forall2_map_l {A B} (R : B -> B -> Prop) (f g : A -> B) RA l l' :
  Forall2 RA l l' -> (forall a a', RA a a' -> R (f a) (g a')) -> Forall2 R (map f l) (map g l').
Proof. induction 1; cbn; intros Hf; constructor; auto. Qed.

Lemma if_rel {A} (R : A -> A -> Prop) (b : bool) x x' y y' :
  R x x' -> R y y' -> R (if b then x else y) (if b then x' else y').
Proof. destruct b; auto. Qed.

Lemma fold_left_rel {A B} (RA : A -> A -> Prop) (RB : B -> B -> Prop) (f f' : A -> B -> A) l l' a a' :
  Forall2 RB l l' -> RA a a' ->
  (forall a a' b b', RA a a' -> RB b b' -> RA (f a b) (f' a' b')) ->
  RA (fold_left f l a) (fold_left f' l' a').
Proof.
  intros Hl. revert a a'. induction Hl as [|x y l l' Hxy Hl IH]; intros a a' Ha Hf; cbn; [exact Ha|].
  apply IH; [apply Hf; assumption|exact Hf].
Qed.

Section TabRel.
  Variable swidth : str -> N.
  Variables t1 t2 : N.
  Hypothesis Ht1 : t1 <> 0.
  Hypothesis Ht2 : t2 <> 0.
  Notation text := (Doc.text swidth).

  Inductive rdoc : doc -> doc -> Prop :=
  | RNil : rdoc DNil DNil
  | RAppend a a' b b' : rdoc a a' -> rdoc b b' -> rdoc (DAppend a b) (DAppend a' b')
  | RGroup d d' : rdoc d d' -> rdoc (DGroup d) (DGroup d')
  | RFlatAlt a a' b b' : rdoc a a' -> rdoc b b' -> rdoc (DFlatAlt a b) (DFlatAlt a' b')
  | RNestUnit d d' : rdoc d d' -> rdoc (DNest (Z.of_N t1) d) (DNest (Z.of_N t2) d')
  | RNestLit k d d' : rdoc d d' -> rdoc (DNest (Z.of_N k) d) (DNest (Z.of_N k) d')
  | RHardline : rdoc DHardline DHardline
  | RText s : rdoc (DText s) (DText s)
  | RTextW w s : rdoc (DTextW w s) (DTextW w s)
  | RAlign d d' : rdoc d d' -> rdoc (DAlign d) (DAlign d').
  Hint Constructors rdoc ropt rres : rdb.

  Lemma zof_ne t : t <> 0 -> Z.eqb (Z.of_N t) 0 = false.
  Proof. intros H. apply Z.eqb_neq. lia. Qed.

  Lemma rdoc_text s : rdoc (text s) (text s).
  Proof. unfold Doc.text. destruct s; [constructor|]. destruct (is_ascii _); constructor. Qed.
  Lemma rdoc_append a a' b b' : rdoc a a' -> rdoc b b' -> rdoc (append a b) (append a' b').
  Proof. intros Ha Hb. destruct Ha; destruct Hb; cbn; auto with rdb. Qed.
  Lemma rdoc_group d d' : rdoc d d' -> rdoc (group d) (group d').
  Proof. intros H. destruct H; cbn; auto with rdb. Qed.
  Lemma rdoc_nest_unit d d' : rdoc d d' -> rdoc (nest (Z.of_N t1) d) (nest (Z.of_N t2) d').
  Proof. intros H. unfold nest. rewrite !zof_ne by assumption. destruct H; auto with rdb. Qed.
  Lemma rdoc_nest_lit k d d' : rdoc d d' -> rdoc (nest (Z.of_N k) d) (nest (Z.of_N k) d').
  Proof. intros H. unfold nest. destruct (Z.eqb _ _); destruct H; auto with rdb. Qed.
  Lemma rdoc_flat_alt a a' b b' : rdoc a a' -> rdoc b b' -> rdoc (flat_alt a b) (flat_alt a' b').
  Proof. intros; constructor; assumption. Qed.
  Lemma rdoc_hardline : rdoc hardline hardline.  Proof. constructor. Qed.
  Lemma rdoc_space : rdoc space space.  Proof. constructor. Qed.
  Lemma rdoc_line : rdoc line line.  Proof. repeat constructor. Qed.
  Lemma rdoc_line_ : rdoc line_ line_.  Proof. repeat constructor. Qed.
  Lemma rdoc_align d d' : rdoc d d' -> rdoc (align d) (align d').
  Proof. intros; constructor; assumption. Qed.
  Lemma rdoc_hang1 d d' : rdoc d d' -> rdoc (hang 1 d) (hang 1 d').
  Proof. intros H. unfold hang. apply rdoc_align. apply (rdoc_nest_lit 1). exact H. Qed.
  Hint Resolve rdoc_text rdoc_append rdoc_group rdoc_nest_unit rdoc_flat_alt rdoc_hardline rdoc_space rdoc_line
       rdoc_line_ rdoc_align rdoc_hang1 : rdb.
  Lemma rdoc_enclose a a' b b' d d' : rdoc a a' -> rdoc b b' -> rdoc d d' -> rdoc (enclose a b d) (enclose a' b' d').
  Proof. intros. unfold enclose. auto with rdb. Qed.
  Lemma rdoc_concat l l' : Forall2 rdoc l l' -> rdoc (concat_docs l) (concat_docs l').
  Proof.
    intros H. unfold concat_docs. apply (fold_left_rel rdoc rdoc); auto with rdb.
  Qed.
  Lemma rdoc_intersperse l l' s s' : Forall2 rdoc l l' -> rdoc s s' -> rdoc (intersperse l s) (intersperse l' s').
  Proof.
    intros H Hs. unfold intersperse. destruct H as [|x y l l' Hxy H]; [constructor|].
    apply (fold_left_rel rdoc rdoc); auto with rdb.
  Qed.
  Lemma rdoc_repeat d d' n : rdoc d d' -> rdoc (repeat_n d n) (repeat_n d' n).
  Proof.
    intros H. unfold repeat_n. generalize (N.to_nat n). intros k.
    assert (G : forall a a', rdoc a a' -> rdoc (repeat_n_aux d k a) (repeat_n_aux d' k a')).
    { induction k as [|k IH]; intros a a' Ha; cbn; [exact Ha|]. apply IH. auto with rdb. }
    apply G. constructor.
  Qed.
  Lemma rdoc_app_opt d d' o o' : rdoc d d' -> ropt rdoc o o' -> rdoc (app_opt d o) (app_opt d' o').
  Proof. intros H Ho. destruct Ho; cbn; auto with rdb. Qed.
  Hint Resolve rdoc_enclose rdoc_concat rdoc_intersperse rdoc_repeat rdoc_app_opt : rdb.

  (* ---------------- comments: no unit in them ---------------- *)
  Lemma comment_rdoc t : rres rdoc (comment swidth t) (comment swidth t).
  Proof.
    unfold comment. destruct (kind_of t); try constructor.
    - unfold line_comment. apply rdoc_text.
    - unfold block_comment. destruct (lines (text_of t)) eqn:El; [constructor; apply rdoc_text|].
      destruct (get_comment_style _).
      + unfold align_multiline. destruct (get_follow_leading _); [|constructor]. rewrite El.
        constructor. apply rdoc_align.
        apply (fold_left_rel rdoc eq); auto with rdb.
        * clear. induction l as [|x l IH]; constructor; auto.
        * intros a a' b b' Ha ->. auto with rdb.
      + constructor. unfold align_multiline_simple. rewrite El. apply rdoc_hang1.
        apply (fold_left_rel rdoc eq); auto with rdb.
        * clear. induction l as [|x l IH]; constructor; auto.
        * intros a a' b b' Ha ->. auto with rdb.
  Qed.

  (* ---------------- flow ---------------- *)
  Record rflow (f f' : flow) : Prop := mk_rflow {
    rf_doc : rdoc (f_doc f) (f_doc f');
    rf_sa : f_space_after f = f_space_after f';
    rf_ls : f_line_start f = f_line_start f' }.
  Inductive rfi : flow_item -> flow_item -> Prop :=
  | rfi_intro d d' b a : rdoc d d' -> rfi (mk_fi d b a) (mk_fi d' b a).

  Lemma rflow_new : rflow flow_new flow_new.
  Proof. constructor; cbn; auto with rdb. Qed.
  Lemma rflow_push_doc f f' d d' sb sa :
    rflow f f' -> rdoc d d' -> rflow (flow_push_doc f d sb sa) (flow_push_doc f' d' sb sa).
  Proof.
    intros [Hd Hs Hl] Hdd. unfold flow_push_doc. rewrite <- Hs. constructor; cbn; auto.
    destruct (sb && _); auto with rdb.
  Qed.
  Lemma rflow_push_comment f f' d d' blk :
    rflow f f' -> rdoc d d' -> rflow (flow_push_comment f d blk) (flow_push_comment f' d' blk).
  Proof.
    intros Hf Hdd. unfold flow_push_comment. destruct blk; [apply rflow_push_doc; assumption|].
    apply rflow_push_doc; [|assumption]. destruct Hf as [Hd Hs Hl]. rewrite <- Hl.
    destruct (negb _); constructor; cbn; auto.
  Qed.
  Lemma rflow_enter f f' : rflow f f' -> rflow (flow_enter_new_line f) (flow_enter_new_line f').
  Proof. intros [Hd Hs Hl]. constructor; cbn; auto. Qed.

  (* ---------------- list ---------------- *)
  Inductive ritem : item -> item -> Prop :=
  | ri_comment d d' : rdoc d d' -> ritem (IComment d) (IComment d')
  | ri_commented b b' a a' : rdoc b b' -> ropt rdoc a a' -> ritem (ICommented b a) (ICommented b' a')
  | ri_linebreak n : ritem (ILinebreak n) (ILinebreak n).
  Hint Constructors ritem : rdb.

  Record rlst (l l' : lst) : Prop := mk_rlst {
    rl_can_attach : l_can_attach l = l_can_attach l';
    rl_free : Forall2 rdoc (l_free l) (l_free l');
    rl_peek_hash : l_peek_hash l = l_peek_hash l';
    rl_items : Forall2 ritem (l_items l) (l_items l');
    rl_real : l_real l = l_real l';
    rl_has_comment : l_has_comment l = l_has_comment l';
    rl_has_line_comment : l_has_line_comment l = l_has_line_comment l';
    rl_fold : l_fold l = l_fold l';
    rl_no_front : l_no_front l = l_no_front l';
    rl_no_detach : l_no_detach l = l_no_detach l';
    rl_keep : l_keep l = l_keep l' }.

  Ltac rl_split H := destruct H as [Hca Hfr Hph Hit Hre Hhc Hhl Hfo Hnf Hnd Hke].
  Ltac rl_fields := constructor; cbn; auto; try congruence.

  Lemma rlst_new : rlst lst_new lst_new.
  Proof. rl_fields. Qed.
  Lemma rlst_set_items l l' its its' : rlst l l' -> Forall2 ritem its its' -> rlst (set_items l its) (set_items l' its').
  Proof. intros H Hi. rl_split H. rl_fields. Qed.
  Lemma rlst_set_free l l' fr fr' : rlst l l' -> Forall2 rdoc fr fr' -> rlst (set_free l fr) (set_free l' fr').
  Proof. intros H Hi. rl_split H. rl_fields. Qed.
  Lemma rlst_set_can_attach l l' b : rlst l l' -> rlst (set_can_attach l b) (set_can_attach l' b).
  Proof. intros H. rl_split H. rl_fields. Qed.
  Lemma rlst_set_peek_hash l l' b : rlst l l' -> rlst (set_peek_hash l b) (set_peek_hash l' b).
  Proof. intros H. rl_split H. rl_fields. Qed.
  Lemma rlst_set_fold l l' f : rlst l l' -> rlst (set_fold l f) (set_fold l' f).
  Proof. intros H. rl_split H. rl_fields. Qed.
  Lemma rlst_keep_linebreak l l' n : rlst l l' -> rlst (lst_keep_linebreak l n) (lst_keep_linebreak l' n).
  Proof. intros H. rl_split H. rl_fields. Qed.
  Lemma rlst_disallow_front l l' : rlst l l' -> rlst (lst_disallow_front_comment l) (lst_disallow_front_comment l').
  Proof. intros H. rl_split H. rl_fields. Qed.
  Lemma rlst_with_fold_style l l' f : rlst l l' -> rlst (lst_with_fold_style l f) (lst_with_fold_style l' f).
  Proof. intros H. rl_split H. rl_fields. destruct (fold_style_eqb f Always); auto. Qed.
  Lemma rlst_always_fold_if l l' p : rlst l l' -> rlst (lst_always_fold_if l p) (lst_always_fold_if l' p).
  Proof.
    intros H. unfold lst_always_fold_if. rewrite <- (rl_has_comment _ _ H).
    destruct (negb _ && p); [apply rlst_set_fold|]; assumption.
  Qed.
  Lemma rlst_detach l l' : rlst l l' -> rlst (detach_comments l) (detach_comments l').
  Proof.
    intros H. unfold detach_comments. apply rlst_set_free; [|constructor].
    apply rlst_set_items; [assumption|]. apply Forall2_app; [apply H|].
    apply Forall2_map_l with (RA := rdoc); [apply H|]. auto with rdb.
  Qed.
  Lemma rlst_try_attach l l' :
    rlst l l' -> rlst (fst (try_attach_comments l)) (fst (try_attach_comments l')) /\
                 snd (try_attach_comments l) = snd (try_attach_comments l').
  Proof.
    intros H. unfold try_attach_comments.
    rewrite <- (rl_can_attach _ _ H), <- (Forall2_nil_iff _ _ _ (rl_free _ _ H)).
    destruct (l_can_attach l && _); [|split; [assumption|reflexivity]].
    pose proof (Forall2_rev _ _ _ (rl_items _ _ H)) as Hr.
    destruct Hr as [|x y r r' Hxy Hr]; [split; [assumption|reflexivity]|].
    destruct Hxy as [d d' Hd|b b' a a' Hb Ha|n]; try (split; [assumption|reflexivity]).
    cbn [fst snd]. split; [|reflexivity].
    apply rlst_set_free; [|constructor]. apply rlst_set_items; [assumption|].
    apply Forall2_snoc; [apply Forall2_rev; assumption|].
    constructor; [assumption|].
    assert (Hadd : rdoc (append space (intersperse (l_free l) space)) (append space (intersperse (l_free l') space))).
    { apply rdoc_append; [apply rdoc_space|]. apply rdoc_intersperse; [apply H|apply rdoc_space]. }
    destruct Ha; constructor; auto with rdb.
  Qed.
  Lemma rlst_attach_or_detach l l' :
    rlst l l' -> rlst (attach_or_detach_comments l) (attach_or_detach_comments l').
  Proof.
    intros H. unfold attach_or_detach_comments. destruct (rlst_try_attach _ _ H) as [H1 H2].
    destruct (try_attach_comments l) as [x b], (try_attach_comments l') as [x' b']. cbn in *. subst b'.
    destruct b; [assumption|]. apply rlst_detach; assumption.
  Qed.
  Lemma rlst_add_item l l' d d' : rlst l l' -> rdoc d d' -> rlst (lst_add_item swidth l d) (lst_add_item swidth l' d').
  Proof.
    intros H Hd. unfold lst_add_item.
    set (l1 := mk_lst _ _ _ _ (l_real l + 1) _ _ _ _ _ _).
    set (l1' := mk_lst _ _ _ _ (l_real l' + 1) _ _ _ _ _ _).
    assert (H1 : rlst l1 l1'). { rl_split H. subst l1 l1'. rl_fields. }
    clearbody l1 l1'. clear H l l'.
    rewrite <- (rl_no_front _ _ H1).
    assert (G : forall l2 l2' b b', rlst l2 l2' -> rdoc b b' ->
              rlst (set_can_attach (set_items l2 (l_items l2 ++
                      [ICommented (append (append b (if l_peek_hash l2 then text [35] else DNil)) d) None])) true)
                   (set_can_attach (set_items l2' (l_items l2' ++
                      [ICommented (append (append b' (if l_peek_hash l2' then text [35] else DNil)) d') None])) true)).
    { intros l2 l2' b b' Hl Hb. apply rlst_set_can_attach.
      apply rlst_set_items; [assumption|]. apply Forall2_snoc; [apply Hl|].
      constructor; [|constructor]. rewrite <- (rl_peek_hash _ _ Hl).
      destruct (l_peek_hash l2); auto with rdb. }
    destruct (l_no_front l1).
    - apply G; cbn; [apply rlst_detach; assumption|constructor].
    - pose proof (rl_free _ _ H1) as Hf. destruct Hf as [|x y fr fr' Hxy Hf].
      + apply G; cbn; [assumption|constructor].
      + rewrite <- (rl_no_detach _ _ H1). apply G; cbn [fst snd].
        * apply rlst_set_free; [assumption|constructor].
        * assert (Hfr : Forall2 rdoc (x :: fr) (y :: fr')) by (constructor; assumption).
          destruct (l_no_detach l1); auto 6 with rdb.
  Qed.
  Lemma pop_linebreaks_rel r r' : Forall2 ritem r r' -> Forall2 ritem (pop_linebreaks_rev r) (pop_linebreaks_rev r').
  Proof.
    induction 1 as [|x y r r' Hxy H IH]; cbn; [constructor|].
    destruct Hxy; try (constructor; [constructor; assumption|assumption]). exact IH.
  Qed.
  Lemma rlst_windup l l' : rlst l l' -> rlst (lst_windup l) (lst_windup l').
  Proof.
    intros H. unfold lst_windup. pose proof (rlst_attach_or_detach _ _ H) as H1.
    apply rlst_set_items; [assumption|]. apply Forall2_rev, pop_linebreaks_rel, Forall2_rev. apply H1.
  Qed.

  Definition r_dn (p p' : doc * nat) : Prop := rdoc (fst p) (fst p') /\ snd p = snd p'.
  Definition r_dnn (p p' : doc * nat * N) : Prop :=
    rdoc (fst (fst p)) (fst (fst p')) /\ snd (fst p) = snd (fst p') /\ snd p = snd p'.

  Lemma rdoc_print_never sty sep sep' its its' :
    rdoc sep sep' -> Forall2 ritem its its' -> rdoc (print_never sty sep its) (print_never sty sep' its').
  Proof.
    intros Hs Hi. unfold print_never. rewrite <- (Forall2_len _ _ _ Hi).
    match goal with |- rdoc (fst (fold_left ?f _ ?a)) (fst (fold_left ?f' _ ?a')) =>
      assert (G : r_dn (fold_left f its a) (fold_left f' its' a')) end.
    { apply (fold_left_rel r_dn ritem); [assumption| |].
      - split; [|reflexivity]. cbn. destruct (ls_tight_delim sty); auto with rdb.
      - intros [a i] [a' i'] b b' [Ha Hi'] Hb. cbn in Ha, Hi'. subst i'. split; [|reflexivity]. cbn [fst].
        destruct Hb; auto 7 with rdb.
        destruct (negb _ || negb _); auto 7 with rdb. }
    apply G.
  Qed.
  Lemma rdoc_print_always sty sep sep' real single its its' :
    rdoc sep sep' -> Forall2 ritem its its' ->
    rdoc (print_always sty sep real single its) (print_always sty sep' real single its').
  Proof.
    intros Hs Hi. unfold print_always. rewrite <- (Forall2_len _ _ _ Hi).
    match goal with |- rdoc (fst (fst (fold_left ?f _ ?a))) (fst (fst (fold_left ?f' _ ?a'))) =>
      assert (G : r_dnn (fold_left f its a) (fold_left f' its' a')) end.
    { apply (fold_left_rel r_dnn ritem); [assumption| |].
      - repeat split. constructor.
      - intros [[a i] s] [[a' i'] s'] b b' (Ha & Hi' & Hs') Hb. cbn in Ha, Hi', Hs'. subst i' s'.
        destruct Hb; repeat split; cbn [fst snd]; auto with rdb.
        + destruct (_ && _); auto with rdb.
        + destruct (negb _); [auto 7 with rdb|]. destruct (_ || _); auto with rdb. }
    apply G.
  Qed.
  Lemma rdoc_print_fit sty sep sep' real single its its' :
    rdoc sep sep' -> Forall2 ritem its its' ->
    rdoc (print_fit sty sep real single its) (print_fit sty sep' real single its').
  Proof.
    intros Hs Hi. unfold print_fit. rewrite <- (Forall2_len _ _ _ Hi).
    match goal with |- rdoc (fst (fst (fold_left ?f _ ?a))) (fst (fst (fold_left ?f' _ ?a'))) =>
      assert (G : r_dnn (fold_left f its a) (fold_left f' its' a')) end.
    { apply (fold_left_rel r_dnn ritem); [assumption| |].
      - repeat split. cbn. destruct (ls_tight_delim sty); auto with rdb.
      - intros [[a i] s] [[a' i'] s'] b b' (Ha & Hi' & Hs') Hb. cbn in Ha, Hi', Hs'. subst i' s'.
        destruct Hb as [d d' Hd|bd bd' af af' Hbd Haf|n]; repeat split; cbn [fst snd]; auto with rdb.
        + destruct (_ && _); auto with rdb.
        + apply rdoc_append; [assumption|]. apply rdoc_append.
          * apply rdoc_append; [assumption|].
            destruct Haf as [|x x' Hx].
            -- destruct (_ && _); [constructor|]. destruct (_ || _); auto with rdb.
            -- apply rdoc_flat_alt; [auto with rdb|]. destruct (_ || _); auto with rdb.
          * destruct (negb _); [auto with rdb|]. destruct (ls_tight_delim sty); auto with rdb. }
    apply G.
  Qed.

  Lemma rdoc_lst_print l l' sty : rlst l l' -> rdoc (lst_print_doc swidth t1 l sty) (lst_print_doc swidth t2 l' sty).
  Proof.
    intros H. unfold lst_print_doc, ztab.
    pose proof (rl_items _ _ H) as Hi. destruct Hi as [|x y its its' Hxy Hi].
    - destruct (ls_omit_empty sty); [constructor|]. destruct (ls_add_delim_space sty); auto with rdb.
    - assert (Hall : Forall2 ritem (x :: its) (y :: its')) by (constructor; assumption).
      rewrite <- (rl_real _ _ H), <- (rl_has_line_comment _ _ H), <- (rl_fold _ _ H).
      set (fs := if l_has_line_comment l then Never else l_fold l).
      destruct fs.
      + pose proof (rdoc_print_fit sty _ _ (l_real l) (l_real l =? 1) _ _ (rdoc_text (ls_sep sty)) Hall) as Hp.
        set (p := print_fit _ _ _ _ (x :: its)) in *. set (p' := print_fit _ _ _ _ (y :: its')) in *.
        assert (Hin : rdoc (if negb (ls_no_indent sty) then nest (Z.of_N t1) p else p)
                           (if negb (ls_no_indent sty) then nest (Z.of_N t2) p' else p')).
        { destruct (negb _); auto with rdb. }
        destruct (_ && _); [auto with rdb|].
        destruct (ls_omit_flat sty); [auto 8 with rdb|].
        destruct (ls_add_delim_space sty); auto 8 with rdb.
      + pose proof (rdoc_print_never sty _ _ _ _ (rdoc_text (ls_sep sty)) Hall) as Hp.
        destruct (negb _); auto with rdb.
      + pose proof (rdoc_print_always sty _ _ (l_real l) (l_real l =? 1) _ _ (rdoc_text (ls_sep sty)) Hall) as Hp.
        destruct (_ || _); [auto with rdb|].
        destruct (ls_add_delim_space sty); auto 8 with rdb.
  Qed.

  (* ---------------- chain ---------------- *)
  Inductive rci : chain_item -> chain_item -> Prop :=
  | rci_body d d' : rdoc d d' -> rci (CBody d) (CBody d')
  | rci_op d d' : rdoc d d' -> rci (COp d) (COp d')
  | rci_comment d d' : rdoc d d' -> rci (CComment d) (CComment d')
  | rci_attached d d' : rdoc d d' -> rci (CAttached d) (CAttached d')
  | rci_linebreak : rci CLinebreak CLinebreak.
  Hint Constructors rci : rdb.
  Record rchain (c c' : chain) : Prop := mk_rchain {
    rc_items : Forall2 rci (ch_items c) (ch_items c');
    rc_op_num : ch_op_num c = ch_op_num c';
    rc_has_comment : ch_has_comment c = ch_has_comment c' }.

  Lemma rchain_new : rchain chain_new chain_new.
  Proof. constructor; cbn; auto. Qed.

  Lemma add_to_last_rel ds ds' d d' : Forall2 rdoc ds ds' -> rdoc d d' -> Forall2 rdoc (add_to_last ds d) (add_to_last ds' d').
  Proof.
    intros H Hd. unfold add_to_last. pose proof (Forall2_rev _ _ _ H) as Hr.
    destruct Hr as [|x y r r' Hxy Hr]; [constructor|].
    apply Forall2_snoc; [apply Forall2_rev; assumption|auto with rdb].
  Qed.

  Definition r_cst (p p' : list doc * bool * bool * bool) : Prop :=
    Forall2 rdoc (fst (fst (fst p))) (fst (fst (fst p'))) /\ snd (fst (fst p)) = snd (fst (fst p')) /\
    snd (fst p) = snd (fst p') /\ snd p = snd p'.

  Lemma rres_chain_print c c' sty :
    rchain c c' -> rres rdoc (chain_print_doc swidth t1 c sty) (chain_print_doc swidth t2 c' sty).
  Proof.
    intros H. unfold chain_print_doc, ztab.
    rewrite <- (rc_op_num _ _ H), <- (rc_has_comment _ _ H).
    match goal with |- context [fold_left ?f (ch_items c) ?a] => set (F := fold_left f (ch_items c) a) end.
    match goal with |- context [fold_left ?f (ch_items c') ?a] => set (F' := fold_left f (ch_items c') a) end.
    assert (G : r_cst F F').
    { unfold F, F'. apply (fold_left_rel r_cst rci); [apply H| |].
      - repeat split. constructor.
      - intros [[[ds hb] ld] sa] [[[ds' hb'] ld'] sa'] b b' (Hds & E1 & E2 & E3) Hb. cbn in Hds, E1, E2, E3.
        subst hb' ld' sa'. destruct Hb; repeat split; cbv beta iota zeta; cbn [fst snd]; auto.
        + destruct ld; [apply Forall2_snoc|apply add_to_last_rel]; assumption.
        + apply Forall2_snoc.
          * apply if_rel; [|assumption]. apply Forall2_snoc; [assumption|].
            destruct (cs_space_around_op sty); auto with rdb.
          * destruct (cs_space_around_op sty); auto with rdb.
        + destruct ld; [apply Forall2_snoc; assumption|apply add_to_last_rel; [assumption|]].
          destruct sa; auto with rdb.
        + apply add_to_last_rel; [assumption|]. destruct sa; auto with rdb.
        + apply Forall2_snoc; [assumption|constructor]. }
    clearbody F F'. destruct F as [[[ds hb] ld] sa]. destruct F' as [[[ds' hb'] ld'] sa'].
    destruct G as (Hds & _). cbn in Hds.
    destruct Hds as [|x y r r' Hxy Hr]; [constructor|]. constructor.
    destruct (_ && _); auto 7 with rdb.
  Qed.

  (* ---------------- plain ---------------- *)
  Inductive rpi : plain_item -> plain_item -> Prop :=
  | rpi_item d d' : rdoc d d' -> rpi (PItem d) (PItem d')
  | rpi_comma : rpi PComma PComma
  | rpi_linebreak n : rpi (PLinebreak n) (PLinebreak n)
  | rpi_line_comment d d' : rdoc d d' -> rpi (PLineComment d) (PLineComment d')
  | rpi_block_comment d d' : rdoc d d' -> rpi (PBlockComment d) (PBlockComment d').
  Hint Constructors rpi : rdb.

  Lemma pop_plain_rel r r' : Forall2 rpi r r' -> Forall2 rpi (pop_plain_linebreaks_rev r) (pop_plain_linebreaks_rev r').
  Proof.
    induction 1 as [|x y r r' Hxy H IH]; cbn; [constructor|].
    destruct Hxy; try (constructor; [constructor; assumption|assumption]). exact IH.
  Qed.
  Lemma rdoc_plain_print its its' ml : Forall2 rpi its its' -> rdoc (plain_print_doc swidth its ml) (plain_print_doc swidth its' ml).
  Proof.
    intros H. unfold plain_print_doc.
    match goal with |- context [fold_left ?f its ?a] => set (F := fold_left f its a) end.
    match goal with |- context [fold_left ?f its' ?a] => set (F' := fold_left f its' a) end.
    assert (G : rflow F F').
    { unfold F, F'. apply (fold_left_rel rflow rpi); [assumption|apply rflow_new|].
      intros a a' b b' Ha Hb. destruct Hb; apply rflow_push_doc; auto with rdb. }
    cbv zeta. destruct ml; [apply rdoc_enclose; auto with rdb; apply G|apply G].
  Qed.
End TabRel.
