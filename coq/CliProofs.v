(* CliProofs.v — theorems about the CLI model (C14, C15, C16). *)
From TV Require Import Cli.

Lemma path_eqb_eq a b : path_eqb a b = true <-> a = b.
Proof.
  revert b; induction a as [|x a IH]; intros [|y b]; cbn; try (split; congruence).
  rewrite andb_true_iff, str_eqb_eq, IH. split; [intros [-> ->]; reflexivity|intros H; injection H; auto].
Qed.

Lemma path_eqb_refl a : path_eqb a a = true.
Proof. apply path_eqb_eq; reflexivity. Qed.

Lemma path_eqb_neq a b : path_eqb a b = false <-> a <> b.
Proof.
  split.
  - intros H E. apply path_eqb_eq in E. congruence.
  - intros H. destruct (path_eqb a b) eqn:E; [|reflexivity]. apply path_eqb_eq in E. contradiction.
Qed.

Lemma lookup_write_same f p c :
  lookup (write f p c) p = match lookup f p with Some _ => Some (FText c) | None => None end.
Proof.
  induction f as [|[q n] f IH]; cbn; [reflexivity|].
  destruct (path_eqb q p) eqn:E; [reflexivity|exact IH].
Qed.

Lemma lookup_write_other f p c q : p <> q -> lookup (write f p c) q = lookup f q.
Proof.
  intros Hne. induction f as [|[q' n] f IH]; cbn; [reflexivity|].
  destruct (path_eqb q' q) eqn:E.
  - apply path_eqb_eq in E. subst q'.
    destruct (path_eqb q p) eqn:E2; [apply path_eqb_eq in E2; congruence|reflexivity].
  - exact IH.
Qed.

Lemma write_same_content f p c : lookup f p = Some (FText c) -> write f p c = f \/ True.
Proof. auto. Qed.

Section Proofs.
  Variable F : config -> str -> option str.

  (* ------------------------------------------------------------------ *)
  (* Check mode is read-only (C14)                                        *)

  Definition quiet (f : fs) (st : state) : Prop :=
    s_fs st = f /\ s_printed st = [] /\ s_writes st = [].

  Lemma quiet_init f : quiet f (init_state f).
  Proof. repeat split. Qed.

  Lemma quiet_add_error f st : quiet f st -> quiet f (add_error st).
  Proof. intros (A & B & C). repeat split; assumption. Qed.

  Lemma quiet_mark_changed f st : quiet f st -> quiet f (mark_changed st).
  Proof. intros (A & B & C). repeat split; assumption. Qed.

  Lemma content_step_check_quiet f cfg tgt c st :
    quiet f st -> quiet f (format_content_step F false true cfg tgt c st).
  Proof.
    intros H. unfold format_content_step. cbn.
    destruct (F cfg c) as [r|]; [|exact H].
    destruct (str_eqb r c); [exact H|]. apply quiet_mark_changed, H.
  Qed.

  Lemma file_step_check_quiet f cfg st p :
    quiet f st -> quiet f (file_step F false true cfg st p).
  Proof.
    intros H. unfold file_step. destruct (lookup (s_fs st) p) as [[c| | |]|];
      auto using quiet_add_error, content_step_check_quiet.
  Qed.

  Lemma all_step_check_quiet f cfg st p :
    quiet f st -> quiet f (all_step F true cfg st p).
  Proof.
    intros H. unfold all_step. destruct (lookup (s_fs st) p) as [[c| | |]|]; auto using quiet_add_error.
    destruct (F cfg c) as [r|]; [|exact H]. destruct (str_eqb r c); [exact H|].
    apply quiet_mark_changed, H.
  Qed.

  Lemma fold_quiet f (step : state -> path -> state) l :
    (forall st p, quiet f st -> quiet f (step st p)) ->
    forall st, quiet f st -> quiet f (fold_left step l st).
  Proof. intros Hs. induction l as [|p l IH]; intros st H; cbn; [exact H|]. apply IH, Hs, H. Qed.

  Definition inv_check (i : invocation) : bool :=
    match i with IFiles _ c _ _ | IStdin _ c _ _ | IAll _ c _ _ => c end.

  Theorem check_mode_read_only :
    forall inv f, inv_check inv = true -> quiet f (r_state (run F inv f)).
  Proof.
    intros [inplace check sty inputs|inplace check sty input|inplace check sty dir] f Hc;
      cbn in Hc; subst check; unfold run.
    - destruct inplace; cbn [andb inplace_conflicts_with_check]; [apply quiet_init|].
      destruct inputs as [|p l]; [apply quiet_init|]. cbn [r_state].
      unfold format_many. apply fold_quiet; [intros; apply file_step_check_quiet; assumption|apply quiet_init].
    - destruct inplace; cbn [andb inplace_conflicts_with_check]; [apply quiet_init|]. cbn [r_state].
      destruct input as [c|]; [apply content_step_check_quiet|apply quiet_add_error]; apply quiet_init.
    - destruct inplace; cbn [andb inplace_conflicts_with_check]; [apply quiet_init|]. cbn [r_state].
      unfold format_all.
      apply fold_quiet; [intros; apply all_step_check_quiet; assumption|].
      destruct (root_missing _ _); [apply quiet_add_error|]; apply quiet_init.
  Qed.

  (* any history of check invocations leaves the file system as it was *)
  Fixpoint run_history (invs : list invocation) (f : fs) : fs :=
    match invs with
    | [] => f
    | i :: rest => run_history rest (s_fs (r_state (run F i f)))
    end.

  Theorem check_history_read_only :
    forall invs f, forallb inv_check invs = true -> run_history invs f = f.
  Proof.
    induction invs as [|i rest IH]; intros f H; cbn; [reflexivity|].
    cbn in H. apply andb_true_iff in H. destruct H as [Hi Hr].
    destruct (check_mode_read_only i f Hi) as (E & _). rewrite E. apply IH, Hr.
  Qed.

  (* ------------------------------------------------------------------ *)
  (* Exit status of check mode is truthful (C14)                          *)

  Definition differs (cfg : config) (n : option fnode) : Prop :=
    exists c r, n = Some (FText c) /\ F cfg c = Some r /\ r <> c.
  Definition io_error (n : option fnode) : Prop :=
    match n with Some (FText _) => False | _ => True end.

  Lemma str_eqb_false a b : str_eqb a b = false <-> a <> b.
  Proof.
    split.
    - intros H E. apply str_eqb_eq in E. congruence.
    - intros H. destruct (str_eqb a b) eqn:E; [|reflexivity]. apply str_eqb_eq in E. contradiction.
  Qed.

  Lemma exit_of_01 check st : exit_of check st = 0 \/ exit_of check st = 1.
  Proof. unfold exit_of. destruct (s_errors st); [destruct (check && s_changed st)|]; auto. Qed.

  Lemma exit_of_check st :
    exit_of true st = 1 <-> (s_changed st = true \/ s_errors st <> O).
  Proof.
    unfold exit_of. destruct (s_errors st) as [|n], (s_changed st); cbn; split; intros H;
      try reflexivity; try discriminate H; auto;
      try (destruct H as [H|H]; congruence); try (right; discriminate).
  Qed.

  (* one step of the check-mode loops, characterised *)
  Lemma file_step_check_char f cfg st p :
    s_fs st = f ->
    let st' := file_step F false true cfg st p in
    (s_changed st' = true <-> s_changed st = true \/ differs cfg (lookup f p)) /\
    (s_errors st' <> O <-> s_errors st <> O \/ io_error (lookup f p)).
  Proof.
    intros Hf. unfold file_step. rewrite Hf. unfold differs, io_error.
    destruct (lookup f p) as [[c| | |]|]; cbn;
      try (split; [split; [auto|intros [H|(c0 & r0 & H & _)]; [exact H|discriminate]]|
                   split; [intros _; right; exact I|intros _; discriminate]]).
    unfold format_content_step. cbn.
    destruct (F cfg c) as [r|] eqn:EF.
    - destruct (str_eqb r c) eqn:E.
      + apply str_eqb_eq in E. subst r. split.
        * split; [auto|]. intros [H|(c0 & r0 & H1 & H2 & H3)]; [exact H|].
          injection H1 as <-. rewrite EF in H2. injection H2 as <-. congruence.
        * split; [auto|intros [H|[]]; exact H].
      + apply str_eqb_false in E. cbn. split.
        * split; [intros _; right; exists c, r; auto|reflexivity].
        * split; [auto|intros [H|[]]; exact H].
    - split.
      + split; [auto|]. intros [H|(c0 & r0 & H1 & H2 & _)]; [exact H|].
        injection H1 as <-. congruence.
      + split; [auto|intros [H|[]]; exact H].
  Qed.

  Lemma all_step_check_char f cfg st p :
    s_fs st = f ->
    let st' := all_step F true cfg st p in
    (s_changed st' = true <-> s_changed st = true \/ differs cfg (lookup f p)) /\
    (s_errors st' <> O <-> s_errors st <> O \/ io_error (lookup f p)).
  Proof.
    intros Hf. unfold all_step. rewrite Hf. unfold differs, io_error.
    destruct (lookup f p) as [[c| | |]|]; cbn;
      try (split; [split; [auto|intros [H|(c0 & r0 & H & _)]; [exact H|discriminate]]|
                   split; [intros _; right; exact I|intros _; discriminate]]).
    destruct (F cfg c) as [r|] eqn:EF.
    - destruct (str_eqb r c) eqn:E.
      + apply str_eqb_eq in E. subst r. split.
        * split; [auto|]. intros [H|(c0 & r0 & H1 & H2 & H3)]; [exact H|].
          injection H1 as <-. rewrite EF in H2. injection H2 as <-. congruence.
        * split; [auto|intros [H|[]]; exact H].
      + apply str_eqb_false in E. cbn. split.
        * split; [intros _; right; exists c, r; auto|reflexivity].
        * split; [auto|intros [H|[]]; exact H].
    - split.
      + split; [auto|]. intros [H|(c0 & r0 & H1 & H2 & _)]; [exact H|].
        injection H1 as <-. congruence.
      + split; [auto|intros [H|[]]; exact H].
  Qed.

  Lemma fold_check_char f cfg (step : state -> path -> state) l :
    (forall st p, quiet f st -> quiet f (step st p)) ->
    (forall st p, s_fs st = f ->
        (s_changed (step st p) = true <-> s_changed st = true \/ differs cfg (lookup f p)) /\
        (s_errors (step st p) <> O <-> s_errors st <> O \/ io_error (lookup f p))) ->
    forall st, quiet f st ->
      let st' := fold_left step l st in
      (s_changed st' = true <-> s_changed st = true \/ exists p, In p l /\ differs cfg (lookup f p)) /\
      (s_errors st' <> O <-> s_errors st <> O \/ exists p, In p l /\ io_error (lookup f p)).
  Proof.
    intros Hq Hs. induction l as [|p l IH]; intros st Hst; cbn.
    - split; (split; [auto|intros [H|(p & [] & _)]; exact H]).
    - destruct (IH (step st p) (Hq _ _ Hst)) as [A B].
      destruct (Hs st p (proj1 Hst)) as [C D]. split.
      + rewrite A, C. split.
        * intros [[H|H]|(q & Hq1 & Hq2)]; [auto|right; exists p; auto|right; exists q; auto].
        * intros [H|(q & [<-|Hq1] & Hq2)]; [auto|auto|right; exists q; auto].
      + rewrite B, D. split.
        * intros [[H|H]|(q & Hq1 & Hq2)]; [auto|right; exists p; auto|right; exists q; auto].
        * intros [H|(q & [<-|Hq1] & Hq2)]; [auto|auto|right; exists q; auto].
  Qed.

  Theorem check_exit_files :
    forall sty inputs f, inputs <> [] ->
      r_exit (run F (IFiles false true sty inputs) f) = 1 <->
      exists p, In p inputs /\
        (differs (to_config sty) (lookup f p) \/ io_error (lookup f p)).
  Proof.
    intros sty inputs f Hne. unfold run. cbn [andb].
    destruct inputs as [|p0 l]; [congruence|]. cbn [r_exit].
    rewrite exit_of_check. unfold format_many.
    pose proof (fold_check_char f (to_config sty) (file_step F false true (to_config sty)) (p0 :: l)
                (fun st p H => file_step_check_quiet f _ st p H)
                (fun st p H => file_step_check_char f _ st p H)
                (init_state f) (quiet_init f)) as [A B].
    cbv zeta in A, B. cbn [init_state s_changed s_errors] in A, B.
    split.
    - intros [H|H].
      + apply A in H. destruct H as [H|(p & H1 & H2)]; [congruence|]. exists p; auto.
      + apply B in H. destruct H as [H|(p & H1 & H2)]; [congruence|]. exists p; auto.
    - intros (p & H1 & [H2|H2]).
      + left. apply A. right. exists p; auto.
      + right. apply B. right. exists p; auto.
  Qed.

  Theorem check_exit_all :
    forall sty dir f,
      r_exit (run F (IAll false true sty dir) f) = 1 <->
      (root_missing (root_of dir) f = true \/
       exists p, In p (walk (root_of dir) f) /\
         (differs (to_config sty) (lookup f p) \/ io_error (lookup f p))).
  Proof.
    intros sty dir f. unfold run. cbn [andb r_exit].
    rewrite exit_of_check. unfold format_all. cbv zeta. set (r := root_of dir).
    remember (if root_missing r f then add_error (init_state f) else init_state f) as st0 eqn:Est0.
    assert (Hq : quiet f st0) by (subst st0; destruct (root_missing r f); [apply quiet_add_error|]; apply quiet_init).
    assert (Hc : s_changed st0 = false) by (subst st0; destruct (root_missing r f); reflexivity).
    assert (He : s_errors st0 <> O <-> root_missing r f = true).
    { subst st0. destruct (root_missing r f); cbn; split; congruence. }
    pose proof (fold_check_char f (to_config sty) (all_step F true (to_config sty)) (walk r f)
                (fun st p H => all_step_check_quiet f _ st p H)
                (fun st p H => all_step_check_char f _ st p H) st0 Hq) as [A B].
    cbv zeta in A, B.
    split.
    - intros [H|H].
      + apply A in H. destruct H as [H|(p & H1 & H2)]; [congruence|]. right; exists p; auto.
      + apply B in H. destruct H as [H|(p & H1 & H2)]; [left; apply He, H|]. right; exists p; auto.
    - intros [H|(p & H1 & [H2|H2])].
      + right. apply B. left. apply He, H.
      + left. apply A. right. exists p; auto.
      + right. apply B. right. exists p; auto.
  Qed.

  Theorem check_exit_stdin :
    forall sty input f,
      r_exit (run F (IStdin false true sty input) f) = 1 <->
      match input with
      | Some c => exists r, F (to_config sty) c = Some r /\ r <> c
      | None => True
      end.
  Proof.
    intros sty input f. unfold run. cbn [andb r_exit]. rewrite exit_of_check.
    destruct input as [c|]; cbn.
    - unfold format_content_step. cbn. destruct (F (to_config sty) c) as [r|] eqn:EF.
      + destruct (str_eqb r c) eqn:E; cbn.
        * apply str_eqb_eq in E. subst r. split; [intros [H|H]; congruence|].
          intros (r & H1 & H2). congruence.
        * apply str_eqb_false in E. split; [intros _; exists r; auto|auto].
      + cbn. split; [intros [H|H]; congruence|intros (r & H & _); congruence].
    - split; [auto|intros _; right; discriminate].
  Qed.

  Theorem exit_is_0_or_1_when_accepted :
    forall inv f, r_exit (run F inv f) = 0 \/ r_exit (run F inv f) = 1 \/ r_exit (run F inv f) = 2.
  Proof.
    intros [ip ck sty l|ip ck sty i|ip ck sty d] f; unfold run;
      repeat match goal with |- context [if ?b then _ else _] => destruct b end;
      try destruct l; cbn [r_exit rejected]; auto;
      match goal with |- context [exit_of ?c ?s] => destruct (exit_of_01 c s) as [->| ->] end; auto.
  Qed.

  (* ------------------------------------------------------------------ *)
  (* In-place modes (C15) and what is printed (C16)                       *)

  Definition wevent : Type := (path * str * str)%type.
  Definition w_path (w : wevent) : path := fst (fst w).

  (* the write a single visit performs, as a function of what the path holds *)
  Definition visit_writes (cfg : config) (n : option fnode) (p : path) : list wevent :=
    match n with
    | Some (FText c) =>
        match F cfg c with
        | Some r => if str_eqb r c then [] else [(p, c, r)]
        | None => []
        end
    | _ => []
    end.

  Definition apply_writes (f : fs) (ws : list wevent) : fs :=
    fold_left (fun f w => write f (w_path w) (snd w)) ws f.

  (* a loop body that writes exactly visit_writes and prints nothing *)
  Definition writer (cfg : config) (step : state -> path -> state) : Prop :=
    forall st p,
      s_writes (step st p) = s_writes st ++ visit_writes cfg (lookup (s_fs st) p) p /\
      s_fs (step st p) = apply_writes (s_fs st) (visit_writes cfg (lookup (s_fs st) p) p) /\
      s_printed (step st p) = s_printed st.

  Lemma file_step_writer cfg : writer cfg (file_step F true false cfg).
  Proof.
    intros st p. unfold file_step, visit_writes.
    destruct (lookup (s_fs st) p) as [[c| | |]|]; cbn; try (rewrite app_nil_r; auto).
    unfold format_content_step. cbn. destruct (F cfg c) as [r|]; cbn; [|rewrite app_nil_r; auto].
    destruct (str_eqb r c); cbn; [rewrite app_nil_r; auto|auto].
  Qed.

  Lemma all_step_writer cfg : writer cfg (all_step F false cfg).
  Proof.
    intros st p. unfold all_step, visit_writes.
    destruct (lookup (s_fs st) p) as [[c| | |]|]; cbn; try (rewrite app_nil_r; auto).
    destruct (F cfg c) as [r|]; cbn; [|rewrite app_nil_r; auto].
    destruct (str_eqb r c); cbn; [rewrite app_nil_r; auto|auto].
  Qed.

  (* every write event, in any in-place run, writes the formatted text of what the file held,
     only when it differs, only to a visited path; and the file system is the initial one with
     exactly those writes applied *)
  Definition write_ok (cfg : config) (visited : list path) (w : wevent) : Prop :=
    In (w_path w) visited /\ F cfg (snd (fst w)) = Some (snd w) /\ snd w <> snd (fst w).

  Lemma visit_writes_ok cfg n p : Forall (write_ok cfg [p]) (visit_writes cfg n p).
  Proof.
    unfold visit_writes. destruct n as [[c| | |]|]; try constructor.
    destruct (F cfg c) as [r|] eqn:E; [|constructor].
    destruct (str_eqb r c) eqn:E2; constructor; [|constructor].
    apply str_eqb_false in E2. repeat split; cbn; auto.
  Qed.

  Lemma write_ok_weaken cfg l l' w : (forall p, In p l -> In p l') -> write_ok cfg l w -> write_ok cfg l' w.
  Proof. intros H (A & B & C). repeat split; auto. Qed.

  Lemma apply_writes_app f a b : apply_writes f (a ++ b) = apply_writes (apply_writes f a) b.
  Proof. unfold apply_writes. apply fold_left_app. Qed.

  Theorem writer_discipline cfg step l :
    writer cfg step ->
    forall st f ws0,
      s_fs st = apply_writes f ws0 -> s_writes st = ws0 ->
      let st' := fold_left step l st in
      exists ws, s_writes st' = ws0 ++ ws /\
                 Forall (write_ok cfg l) ws /\
                 s_fs st' = apply_writes f (ws0 ++ ws) /\
                 s_printed st' = s_printed st.
  Proof.
    intros Hw. induction l as [|p l IH]; intros st f ws0 Hf Hs; cbn.
    - exists []. rewrite app_nil_r. repeat split; auto.
    - destruct (Hw st p) as (A & B & C).
      set (v := visit_writes cfg (lookup (s_fs st) p) p) in *.
      destruct (IH (step st p) f (ws0 ++ v)) as (ws & D & E & G & H).
      + rewrite B, Hf. symmetry. apply apply_writes_app.
      + rewrite A, Hs. reflexivity.
      + exists (v ++ ws). rewrite app_assoc. repeat split; auto.
        * apply Forall_app. split.
          -- eapply Forall_impl; [|apply visit_writes_ok]. intros w. apply write_ok_weaken.
             intros q [<-|[]]. left; reflexivity.
          -- eapply Forall_impl; [|exact E]. intros w. apply write_ok_weaken. intros q Hq. right; exact Hq.
        * rewrite H, C. reflexivity.
  Qed.

  Lemma lookup_apply_writes_untouched ws : forall f q,
    ~ In q (map w_path ws) -> lookup (apply_writes f ws) q = lookup f q.
  Proof.
    induction ws as [|w ws IH]; intros f q Hq; cbn; [reflexivity|].
    change (lookup (apply_writes (write f (w_path w) (snd w)) ws) q = lookup f q).
    rewrite IH by (intros H; apply Hq; right; exact H).
    apply lookup_write_other. intros E. apply Hq. left. exact E.
  Qed.

  (* C15: in-place formatting of a file list *)
  Theorem inplace_files_discipline :
    forall sty inputs f,
      let st := format_many F true false (to_config sty) inputs f in
      Forall (write_ok (to_config sty) inputs) (s_writes st) /\
      s_fs st = apply_writes f (s_writes st) /\
      s_printed st = [] /\
      (forall q, ~ In q (map w_path (s_writes st)) -> lookup (s_fs st) q = lookup f q).
  Proof.
    intros sty inputs f st. subst st. unfold format_many.
    destruct (writer_discipline (to_config sty) _ inputs (file_step_writer (to_config sty))
                (init_state f) f [] eq_refl eq_refl) as (ws & A & B & C & D).
    cbn [app] in A, C. cbv zeta in A, C, D. rewrite A.
    split; [exact B|split; [exact C|split; [exact D|]]].
    intros q Hq. rewrite C. apply lookup_apply_writes_untouched. exact Hq.
  Qed.

  (* C15: format-all *)
  Theorem format_all_discipline :
    forall sty dir f,
      let st := format_all F false (to_config sty) dir f in
      Forall (write_ok (to_config sty) (walk (root_of dir) f)) (s_writes st) /\
      s_fs st = apply_writes f (s_writes st) /\
      s_printed st = [] /\
      (forall q, ~ In q (map w_path (s_writes st)) -> lookup (s_fs st) q = lookup f q).
  Proof.
    intros sty dir f st. subst st. unfold format_all. cbv zeta.
    set (st0 := if root_missing (root_of dir) f then add_error (init_state f) else init_state f).
    assert (H0 : s_fs st0 = f /\ s_writes st0 = [] /\ s_printed st0 = [])
      by (unfold st0; destruct (root_missing _ _); repeat split).
    destruct H0 as (H1 & H2 & H3).
    destruct (writer_discipline (to_config sty) _ (walk (root_of dir) f) (all_step_writer (to_config sty))
                st0 f [] H1 H2) as (ws & A & B & C & D).
    cbn [app] in A, C. cbv zeta in A, C, D. rewrite A.
    split; [exact B|split; [exact C|split; [congruence|]]].
    intros q Hq. rewrite C. apply lookup_apply_writes_untouched. exact Hq.
  Qed.

  (* eligibility of format-all targets, spelled out *)
  Theorem walk_eligibility :
    forall r f p, In p (walk r f) ->
      exists n rest, In (p, n) f /\ strip_prefix r p = Some rest /\
                     forallb (fun c => negb (is_hidden c)) rest = true /\
                     is_regular n = true /\ has_typ_ext (last p []) = true.
  Proof.
    intros r f p H. unfold walk in H. apply in_map_iff in H. destruct H as ([q n] & E & H).
    cbn in E. subst q. apply filter_In in H. destruct H as [Hin He].
    unfold walk_eligible in He. destruct (strip_prefix r p) as [rest|] eqn:Es; [|discriminate].
    apply andb_true_iff in He. destruct He as [He H3]. apply andb_true_iff in He. destruct He as [H1 H2].
    exists n, rest. auto.
  Qed.

  (* ------------------------------------------------------------------ *)
  (* A failing input neither stops nor affects the others (C15)          *)

  Definition same_effects (a b : state) : Prop :=
    s_fs a = s_fs b /\ s_printed a = s_printed b /\ s_writes a = s_writes b /\ s_changed a = s_changed b.

  Lemma file_step_same_effects ip ck cfg a b p :
    same_effects a b -> same_effects (file_step F ip ck cfg a p) (file_step F ip ck cfg b p).
  Proof.
    intros (A & B & C & D). unfold file_step. rewrite <- A.
    destruct (lookup (s_fs a) p) as [[c| | |]|]; try (repeat split; assumption).
    unfold format_content_step. destruct (F cfg c) as [r|].
    - destruct (str_eqb r c).
      + unfold print_if. destruct (negb ip && negb ck); repeat split; cbn; congruence.
      + destruct ip; [repeat split; cbn; congruence|].
        destruct ck; [repeat split; cbn; congruence|]. repeat split; cbn; congruence.
    - unfold print_if. destruct (negb ip && negb ck); repeat split; cbn; congruence.
  Qed.

  Lemma fold_same_effects ip ck cfg l : forall a b,
    same_effects a b ->
    same_effects (fold_left (file_step F ip ck cfg) l a) (fold_left (file_step F ip ck cfg) l b).
  Proof. induction l as [|p l IH]; intros a b H; cbn; [exact H|]. apply IH, file_step_same_effects, H. Qed.

  Definition is_text (n : option fnode) : bool := match n with Some (FText _) => true | _ => false end.

  Lemma is_text_write f p c q :
    is_text (lookup f p) = true -> is_text (lookup (write f p c) q) = is_text (lookup f q).
  Proof.
    intros Hp. destruct (path_eqb p q) eqn:E.
    - apply path_eqb_eq in E. subst q. rewrite lookup_write_same.
      destruct (lookup f p) as [[]|]; cbn in *; congruence.
    - apply path_eqb_neq in E. rewrite lookup_write_other by exact E. reflexivity.
  Qed.

  Lemma is_text_visit cfg f p q :
    is_text (lookup (apply_writes f (visit_writes cfg (lookup f p) p)) q) = is_text (lookup f q).
  Proof.
    unfold visit_writes. destruct (lookup f p) as [[c| | |]|] eqn:E; try reflexivity.
    destruct (F cfg c) as [r|]; [|reflexivity]. destruct (str_eqb r c); [reflexivity|].
    cbn. apply is_text_write. rewrite E. reflexivity.
  Qed.

  (* dropping an input that cannot be read changes nothing but the error count,
     wherever it stands in the list; and the batch reports it *)
  Theorem failing_input_is_isolated :
    forall sty l1 q l2 f,
      is_text (lookup f q) = false ->
      same_effects (format_many F true false (to_config sty) (l1 ++ q :: l2) f)
                   (format_many F true false (to_config sty) (l1 ++ l2) f) /\
      r_exit (run F (IFiles true false sty (l1 ++ q :: l2)) f) = 1.
  Proof.
    intros sty l1 q l2 f Hq. set (cfg := to_config sty).
    assert (Hinv : forall l st, (forall x, is_text (lookup (s_fs st) x) = is_text (lookup f x)) ->
                forall x, is_text (lookup (s_fs (fold_left (file_step F true false cfg) l st)) x) = is_text (lookup f x)).
    { induction l as [|p l IH]; intros st H x; cbn; [apply H|]. apply IH. intros y.
      destruct (file_step_writer cfg st p) as (_ & B & _). rewrite B, is_text_visit. apply H. }
    assert (Herr : forall l st, s_errors st <> O -> s_errors (fold_left (file_step F true false cfg) l st) <> O).
    { induction l as [|p l IH]; intros st H; cbn; [exact H|]. apply IH.
      unfold file_step. destruct (lookup (s_fs st) p) as [[c| | |]|]; try (cbn; discriminate).
      unfold format_content_step. cbn. destruct (F cfg c) as [r|]; [|exact H].
      destruct (str_eqb r c); exact H. }
    split.
    - unfold format_many. rewrite !fold_left_app. cbn [fold_left].
      apply fold_same_effects.
      set (st1 := fold_left (file_step F true false cfg) l1 (init_state f)).
      unfold file_step at 1.
      assert (Hq' : is_text (lookup (s_fs st1) q) = false)
        by (unfold st1; rewrite Hinv; [exact Hq|reflexivity]).
      destruct (lookup (s_fs st1) q) as [[c| | |]|]; try discriminate; repeat split.
    - unfold run. cbn [andb]. destruct (l1 ++ q :: l2) eqn:El; [destruct l1; discriminate|].
      rewrite <- El. cbn [r_exit]. unfold exit_of.
      destruct (s_errors (format_many F true false (to_config sty) (l1 ++ q :: l2) f)) eqn:Ee; [|reflexivity].
      exfalso. revert Ee. unfold format_many. rewrite fold_left_app. cbn [fold_left].
      apply Herr.
      set (st1 := fold_left (file_step F true false (to_config sty)) l1 (init_state f)).
      assert (Hq' : is_text (lookup (s_fs st1) q) = false)
        by (unfold st1; rewrite Hinv; [exact Hq|reflexivity]).
      unfold file_step. destruct (lookup (s_fs st1) q) as [[c| | |]|]; try discriminate; cbn; discriminate.
  Qed.

  (* ------------------------------------------------------------------ *)
  (* What the plain mode prints (C16)                                    *)

  Definition shown (cfg : config) (n : option fnode) : list str :=
    match n with
    | Some (FText c) => match F cfg c with Some r => [r] | None => [c] end
    | _ => []
    end.

  Theorem plain_mode_prints_library_output :
    forall sty inputs f,
      let st := format_many F false false (to_config sty) inputs f in
      s_printed st = flat_map (fun p => shown (to_config sty) (lookup f p)) inputs /\
      s_fs st = f /\ s_writes st = [].
  Proof.
    intros sty inputs f st. subst st. unfold format_many. set (cfg := to_config sty).
    assert (H : forall l st0, s_fs st0 = f -> s_writes st0 = [] ->
              let st := fold_left (file_step F false false cfg) l st0 in
              s_printed st = s_printed st0 ++ flat_map (fun p => shown cfg (lookup f p)) l /\
              s_fs st = f /\ s_writes st = []).
    { induction l as [|p l IH]; intros st0 Hf Hw; cbn.
      - rewrite app_nil_r. auto.
      - assert (Hs : s_fs (file_step F false false cfg st0 p) = f /\
                     s_writes (file_step F false false cfg st0 p) = [] /\
                     s_printed (file_step F false false cfg st0 p) = s_printed st0 ++ shown cfg (lookup f p)).
        { unfold file_step. rewrite Hf. unfold shown.
          destruct (lookup f p) as [[c| | |]|]; cbn; try (rewrite app_nil_r; auto).
          unfold format_content_step. cbn. destruct (F cfg c) as [r|]; cbn; [|auto].
          destruct (str_eqb r c) eqn:E; cbn; auto. }
        destruct Hs as (A & B & C). destruct (IH _ A B) as (D & E & G).
        cbv zeta in D. rewrite D, C, <- app_assoc. auto. }
    destruct (H inputs (init_state f) eq_refl eq_refl) as (A & B & C). cbv zeta in A. auto.
  Qed.

  Theorem stdin_prints_library_output :
    forall sty c f,
      s_printed (r_state (run F (IStdin false false sty (Some c)) f)) =
        [match F (to_config sty) c with Some r => r | None => c end] /\
      s_fs (r_state (run F (IStdin false false sty (Some c)) f)) = f.
  Proof.
    intros sty c f. unfold run. cbn. unfold format_content_step. cbn.
    destruct (F (to_config sty) c) as [r|]; cbn; [|auto]. destruct (str_eqb r c); cbn; auto.
  Qed.

  Theorem format_with_width_spec :
    forall c w, format_with_width F c w =
      match F (with_width cfg_default w) c with Some o => o | None => c end.
  Proof. reflexivity. Qed.
End Proofs.

(* C16: the option map, about the GENERATED CliGen.v *)
Theorem to_config_maps_options :
  forall a, max_width (to_config a) = sa_column a /\
            tab_spaces (to_config a) = sa_tab_width a /\
            reorder_import_items (to_config a) = sa_reorder_import_items a /\
            blank_lines_upper_bound (to_config a) = blank_lines_upper_bound cfg_default.
Proof. intros a. repeat split. Qed.

Theorem cli_defaults :
  sa_column cli_default_style = 80 /\ sa_tab_width cli_default_style = 2 /\
  sa_reorder_import_items cli_default_style = false /\
  to_config cli_default_style = cfg_default /\
  inplace_conflicts_with_check = true /\
  config_fields_as_modelled = true /\ format_with_width_as_modelled = true.
Proof. repeat split. Qed.
