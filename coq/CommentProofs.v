(* CommentProofs.v — comment.rs: a comment is re-emitted line by line; a line comment verbatim, a block
   comment with only leading blanks of its lines removed (C06 "same text"). *)
From TV Require Import Conv Render RenderProofs SeqProofs ParenProofs.
From Coq Require Import Lia.

(* `out` is `src` without some leading White_Space *)
Definition line_cut (src out : str) : Prop := exists pre, src = pre ++ out /\ forallb is_ws pre = true.

Definition lines_atoms (ls : list str) : list atom :=
  match ls with
  | [] => []
  | l :: r => text_atoms l ++ concat (map (fun o => ALine :: text_atoms o) r)
  end.

Lemma seqs_text_atoms sw s x : seqs (text sw s) x -> x = text_atoms s.
Proof.
  intros H. unfold text_atoms. destruct s as [|c s].
  - cbn in H. apply seqs_nil_inv in H. assumption.
  - apply seqs_text in H. destruct H as [[H _]|H]; [discriminate|assumption].
Qed.

Lemma seqs_lines_fold sw (f : str -> str) : forall rest d0 x,
  seqs (fold_left (fun d l => append (append d hardline) (text sw (f l))) rest d0) x ->
  exists x0, seqs d0 x0 /\ x = x0 ++ concat (map (fun l => ALine :: text_atoms (f l)) rest).
Proof.
  induction rest as [|l rest IH]; intros d0 x H; cbn in *.
  - exists x. rewrite app_nil_r. auto.
  - apply IH in H. destruct H as (x1 & H1 & ->).
    apply seqs_append in H1. destruct H1 as (xa & xt & -> & Ha & Ht).
    apply seqs_append in Ha. destruct Ha as (x0 & xh & -> & H0 & Hh).
    apply seqs_hardline in Hh. apply seqs_text_atoms in Ht. subst.
    exists x0. split; [assumption|]. rewrite <- !app_assoc. reflexivity.
Qed.

Lemma trim_start_cut l : line_cut l (trim_start l).
Proof.
  unfold line_cut, trim_start. induction l as [|c l IH]; cbn.
  - exists []. auto.
  - destruct (is_ws c) eqn:E.
    + destruct IH as (pre & Hl & Hp). exists (c :: pre). cbn. rewrite E, Hp. split; [f_equal; exact Hl|reflexivity].
    + exists []. auto.
Qed.

(* ---- Plain style: the common indentation is made of U+0020 only ---- *)
Lemma first_non_space_spec : forall l i,
  match first_non_space l i with
  | Some p => exists k, p = i + N.of_nat k /\ (k < length l)%nat /\ forallb (fun c => c =? SP) (firstn k l) = true
  | None => forallb (fun c => c =? SP) l = true
  end.
Proof.
  induction l as [|c l IH]; intros i; cbn [first_non_space].
  - reflexivity.
  - destruct (c =? SP) eqn:E.
    + specialize (IH (i + 1)). destruct (first_non_space l (i + 1)).
      * destruct IH as (k & -> & Hk & Hf). exists (S k). cbn [firstn forallb length]. rewrite E, Hf.
        split; [lia|]. split; [lia|reflexivity].
      * cbn. rewrite E. exact IH.
    + exists 0%nat. cbn. split; [lia|]. split; [lia|reflexivity].
Qed.

Lemma sp_is_ws c : (c =? SP) = true -> is_ws c = true.
Proof. intros H. apply N.eqb_eq in H. subst. reflexivity. Qed.

Lemma forallb_sp_ws l : forallb (fun c => c =? SP) l = true -> forallb is_ws l = true.
Proof.
  induction l as [|c l IH]; cbn; [auto|]. intros H. apply andb_prop in H. destruct H as [H1 H2].
  rewrite (sp_is_ws _ H1), (IH H2). reflexivity.
Qed.

Lemma forallb_firstn {A} (p : A -> bool) k l : forallb p l = true -> forallb p (firstn k l) = true.
Proof.
  revert l; induction k as [|k IH]; intros [|c l]; cbn; auto.
  intros H. apply andb_prop in H. destruct H as [-> H]. cbn. auto.
Qed.

Lemma forallb_firstn_le {A} (p : A -> bool) j k l :
  (j <= k)%nat -> forallb p (firstn k l) = true -> forallb p (firstn j l) = true.
Proof.
  revert k l; induction j as [|j IH]; intros k l Hle H; [reflexivity|].
  destruct k as [|k]; [lia|]. destruct l as [|c l]; [reflexivity|].
  cbn in *. apply andb_prop in H. destruct H as [-> H]. cbn. apply (IH k); [lia|assumption].
Qed.

Lemma length_le_byte_len l : (N.of_nat (length l) <= byte_len l).
Proof.
  induction l as [|c l IH]; cbn [length byte_len]; [lia|].
  unfold utf8_len. destruct (c <? 128); [lia|]. destruct (c <? 2048); [lia|]. destruct (c <? 65536); lia.
Qed.

Definition min_leading (ls : list str) (acc : option N) : option N :=
  fold_left (fun a l => min_opt a (first_non_space l 0)) ls acc.

(* None stands for usize::MAX *)
Definition ole (a b : option N) : Prop :=
  match a, b with
  | _, None => True
  | None, Some _ => False
  | Some x, Some y => x <= y
  end.

Lemma ole_refl a : ole a a.
Proof. destruct a; cbn; [lia|exact I]. Qed.
Lemma ole_trans a b c : ole a b -> ole b c -> ole a c.
Proof. destruct a, b, c; cbn; try tauto; lia. Qed.
Lemma min_opt_l a b : ole (min_opt a b) a.
Proof. destruct a, b; cbn; try lia; exact I. Qed.
Lemma min_opt_r a b : ole (min_opt a b) b.
Proof. destruct a, b; cbn; try lia; exact I. Qed.

Lemma min_leading_le_acc : forall ls acc, ole (min_leading ls acc) acc.
Proof.
  induction ls as [|l ls IH]; intros acc; cbn; [apply ole_refl|].
  eapply ole_trans; [apply IH|apply min_opt_l].
Qed.

Lemma min_leading_le_elem : forall ls acc l, In l ls -> ole (min_leading ls acc) (first_non_space l 0).
Proof.
  induction ls as [|l0 ls IH]; intros acc l Hin; [destruct Hin|].
  cbn. destruct Hin as [->|Hin].
  - eapply ole_trans; [apply min_leading_le_acc|apply min_opt_r].
  - apply IH. assumption.
Qed.

Lemma min_leading_bound ls acc l :
  In l ls ->
  match min_leading ls acc with
  | Some m => match first_non_space l 0 with Some p => m <= p | None => True end
  | None => first_non_space l 0 = None
  end.
Proof.
  intros Hin. pose proof (min_leading_le_elem ls acc l Hin) as H. unfold ole in H.
  destruct (min_leading ls acc); destruct (first_non_space l 0); try exact H; try reflexivity; try exact I.
  destruct H.
Qed.

Lemma cut_line_cut leading l :
  (match leading with
   | Some m => match first_non_space l 0 with Some p => m <= p | None => True end
   | None => first_non_space l 0 = None
   end) -> line_cut l (cut_line leading l).
Proof.
  intros H. unfold line_cut, cut_line.
  pose proof (first_non_space_spec l 0) as Hs.
  destruct leading as [m|].
  - destruct (m <? byte_len l) eqn:Eb.
    + exists (firstn (N.to_nat m) l). split; [symmetry; apply firstn_skipn|].
      apply forallb_sp_ws.
      destruct (first_non_space l 0) as [p|].
      * destruct Hs as (k & -> & Hk & Hf). apply (forallb_firstn_le _ _ k); [lia|assumption].
      * apply forallb_firstn. assumption.
    + exists l. rewrite app_nil_r. split; [reflexivity|]. apply forallb_sp_ws.
      destruct (first_non_space l 0) as [p|]; [|assumption].
      exfalso. destruct Hs as (k & -> & Hk & Hf). apply N.ltb_ge in Eb.
      pose proof (length_le_byte_len l). lia.
  - exists l. rewrite app_nil_r. split; [reflexivity|]. apply forallb_sp_ws. rewrite H in Hs. assumption.
Qed.

Lemma seqs_align d x : seqs (align d) x -> seqs d x.
Proof. unfold align. intros H. inversion H. assumption. Qed.

Section CommentText.
  Variable swidth : str -> N.

  Theorem block_comment_text t d x :
    lines t <> [] ->
    block_comment swidth t = Ok d -> seqs d x ->
    exists outs, Forall2 line_cut (lines t) outs /\ x = lines_atoms outs.
  Proof.
    intros Hne H Hx. unfold block_comment in H.
    destruct (lines t) as [|first rest] eqn:El; [contradiction|].
    destruct (get_comment_style t).
    - (* Plain *)
      unfold align_multiline, get_follow_leading in H. rewrite El in H. cbn [tl] in H.
      destruct rest as [|r0 rest']; [discriminate|].
      remember (r0 :: rest') as rest eqn:Er2.
      inversion H; subst d. clear H.
      apply seqs_align in Hx.
      apply seqs_lines_fold in Hx. destruct Hx as (x0 & H0 & ->).
      cbn [append] in H0. apply seqs_text_atoms in H0. subst x0.
      set (leading := fold_left (fun acc l => min_opt acc (first_non_space l 0)) rest None) in *.
      exists (first :: map (cut_line leading) rest). split.
      + constructor; [exists []; auto|].
        assert (Hall : forall l, In l rest -> line_cut l (cut_line leading l)).
        { intros l Hin. apply cut_line_cut. apply (min_leading_bound rest None l Hin). }
        clearbody leading. clear - Hall. induction rest as [|l rest IH]; cbn; constructor.
        * apply Hall. left; reflexivity.
        * apply IH. intros l' Hl'. apply Hall. right; assumption.
      + unfold lines_atoms. rewrite map_map. reflexivity.
    - (* Bullet *)
      inversion H; subst d. clear H.
      unfold align_multiline_simple in Hx. rewrite El in Hx.
      unfold hang, align in Hx. inversion Hx; subst.
      match goal with Hs : seqs (nest _ _) _ |- _ => apply seqs_nest in Hs; apply seqs_lines_fold in Hs; destruct Hs as (x0 & H0 & ->) end.
      cbn [append] in H0. apply seqs_text_atoms in H0. subst x0.
      exists (trim_start first :: map trim_start rest). split.
      + constructor; [apply trim_start_cut|].
        clear. induction rest as [|l rest IH]; cbn; constructor; [apply trim_start_cut|assumption].
      + unfold lines_atoms. rewrite map_map. reflexivity.
  Qed.

  (* a line comment is one atom holding its exact text *)
  Theorem line_comment_text t x : seqs (line_comment swidth t) x -> x = text_atoms t.
  Proof. apply seqs_text_atoms. Qed.
End CommentText.
