(* PostProofs.v — closed theorems about strip_trailing_whitespace (C11; idempotence used by C03 notes) *)
From TV Require Import Str Post.

Definition no_lf (l : str) : Prop := Forall (fun c => (c =? LF) = false) l.

Lemma split_lf_nonempty s : split_lf s <> [].
Proof. destruct s as [|c s]; cbn; [discriminate|]. destruct (c =? LF); [discriminate|]. destruct (split_lf s); discriminate. Qed.

Lemma split_lf_no_lf s : Forall no_lf (split_lf s).
Proof.
  induction s as [|c s IH]; cbn.
  - repeat constructor.
  - destruct (c =? LF) eqn:E.
    + constructor; [constructor|exact IH].
    + destruct (split_lf s) as [|l ls] eqn:El.
      * repeat constructor. exact E.
      * inversion IH; subst. constructor; [constructor; assumption|assumption].
Qed.

Lemma split_lf_app_lf l s : no_lf l -> split_lf (l ++ LF :: s) = l :: split_lf s.
Proof.
  induction l as [|c l IH]; intros H; cbn.
  - reflexivity.
  - inversion H as [|? ? Hc Hl]; subst. rewrite Hc. rewrite (IH Hl). reflexivity.
Qed.

Lemma split_lf_concat ls :
  Forall no_lf ls ->
  split_lf (concat (map (fun l => l ++ [LF]) ls)) = ls ++ [[]].
Proof.
  induction ls as [|l ls IH]; intros H; cbn.
  - reflexivity.
  - inversion H; subst. rewrite <- app_assoc. cbn. rewrite split_lf_app_lf by assumption.
    rewrite IH by assumption. reflexivity.
Qed.

Lemma no_lf_rev l : no_lf l -> no_lf (rev l).
Proof. unfold no_lf. rewrite !Forall_forall. intros H x Hx. apply H. apply in_rev. exact Hx. Qed.

Lemma no_lf_drop_while p l : no_lf l -> no_lf (drop_while p l).
Proof.
  induction l as [|c l IH]; cbn; intros H; [exact H|].
  destruct (p c); [|exact H]. inversion H; subst. auto.
Qed.

Lemma no_lf_trim_end l : no_lf l -> no_lf (trim_end l).
Proof. intros H. unfold trim_end. rewrite !frev_rev. apply no_lf_rev, no_lf_drop_while, no_lf_rev, H. Qed.

Lemma no_lf_strip_suffix_cr l : no_lf l -> no_lf (strip_suffix_cr l).
Proof.
  intros H. unfold strip_suffix_cr. rewrite !frev_rev. destruct (rev l) as [|c r] eqn:E; [exact H|].
  destruct (c =? CR); [|exact H]. rewrite frev_rev.
  apply no_lf_rev. apply no_lf_rev in H. rewrite E in H. inversion H; assumption.
Qed.

Lemma Forall_removelast {A} (P : A -> Prop) l : Forall P l -> Forall P (removelast l).
Proof.
  induction l as [|x l IH]; cbn; intros H; [constructor|].
  inversion H; subst. destruct l; [constructor|]. constructor; auto.
Qed.

Lemma Forall_last {A} (P : A -> Prop) l d : Forall P l -> l <> [] -> P (last l d).
Proof.
  induction l as [|x l IH]; intros H Hn; [congruence|].
  inversion H; subst. destruct l; [assumption|]. apply IH; [assumption|discriminate].
Qed.

Lemma lines_no_lf s : Forall no_lf (lines s).
Proof.
  unfold lines. apply Forall_app. split.
  - pose proof (Forall_removelast _ _ (split_lf_no_lf s)) as H.
    induction H; cbn; constructor; auto using no_lf_strip_suffix_cr.
  - pose proof (Forall_last _ _ [] (split_lf_no_lf s) (split_lf_nonempty s)) as H.
    remember (last (split_lf s) []) as x eqn:Ex. destruct x; [constructor|]. constructor; [rewrite Ex; exact H|constructor].
Qed.

Lemma drop_while_head p l : match drop_while p l with [] => True | c :: _ => p c = false end.
Proof. induction l as [|c l IH]; cbn; [exact I|]. destruct (p c) eqn:E; [exact IH|exact E]. Qed.

Lemma last_rev_head {A} (l : list A) d : last l d = hd d (rev l).
Proof.
  induction l as [|x l IH]; [reflexivity|].
  cbn [rev]. destruct l as [|y l]; [reflexivity|].
  change (last (x :: y :: l) d) with (last (y :: l) d). rewrite IH.
  cbn [rev]. destruct (rev l); reflexivity.
Qed.

Lemma trim_end_ok l : line_ok (trim_end l).
Proof.
  unfold line_ok, trim_end. rewrite !frev_rev. rewrite last_rev_head, rev_involutive.
  pose proof (drop_while_head is_ws (rev l)) as H.
  destruct (drop_while is_ws (rev l)); [left; reflexivity|right; exact H].
Qed.

Lemma lines_nonempty s : s <> [] -> lines s <> [].
Proof.
  intros Hs. unfold lines. destruct s as [|c s]; [congruence|].
  cbn [split_lf]. destruct (c =? LF).
  - pose proof (split_lf_nonempty s). destruct (split_lf s); [congruence|]. cbn. discriminate.
  - destruct (split_lf s) as [|l [|l' ls]]; cbn; try discriminate.
Qed.

Lemma last_app_nonnil {A} (a b : list A) d : b <> [] -> last (a ++ b) d = last b d.
Proof.
  intros Hb. induction a as [|x a IH]; [reflexivity|].
  cbn. destruct (a ++ b) eqn:E; [|exact IH].
  destruct a; cbn in E; [congruence|discriminate].
Qed.

Lemma last_concat_lf ls :
  ls <> [] -> last (concat (map (fun l : str => l ++ [LF]) ls)) 0 = LF.
Proof.
  induction ls as [|l ls IH]; [congruence|]. intros _. cbn.
  destruct ls as [|l' ls].
  - cbn. rewrite app_nil_r. rewrite last_last. reflexivity.
  - rewrite last_app_nonnil. { apply IH. discriminate. }
    cbn. destruct l'; discriminate.
Qed.

Lemma drop_while_idem p l : drop_while p (drop_while p l) = drop_while p l.
Proof.
  pose proof (drop_while_head p l) as H. destruct (drop_while p l) as [|c r]; [reflexivity|].
  cbn. rewrite H. reflexivity.
Qed.

Lemma trim_end_idem l : trim_end (trim_end l) = trim_end l.
Proof. unfold trim_end. rewrite !frev_rev. rewrite rev_involutive, drop_while_idem. reflexivity. Qed.

Lemma strip_shape s :
  exists ts, strip s = concat (map (fun l => l ++ [LF]) ts) /\ ts <> [] /\
             Forall no_lf ts /\ Forall line_ok ts /\ Forall (fun t => trim_end t = t) ts.
Proof.
  destruct s as [|c s].
  - exists [[]]. cbn. repeat split; try discriminate; repeat constructor.
  - exists (map trim_end (lines (c :: s))). split; [|split; [|split; [|split]]].
    + cbn [strip]. rewrite map_map. reflexivity.
    + pose proof (lines_nonempty (c :: s)) as H. destruct (lines (c :: s)); [apply H; discriminate|discriminate].
    + pose proof (lines_no_lf (c :: s)) as H. induction H; cbn; constructor; auto using no_lf_trim_end.
    + induction (lines (c :: s)); cbn; constructor; auto using trim_end_ok.
    + induction (lines (c :: s)); cbn; constructor; auto using trim_end_idem.
Qed.

Lemma concat_lf_nonempty ts : ts <> [] -> concat (map (fun l : str => l ++ [LF]) ts) <> [].
Proof. destruct ts as [|t ts]; [congruence|]. intros _. cbn. destruct t; discriminate. Qed.

Theorem strip_hygiene : forall s : str, hygiene (strip s).
Proof.
  intros s. destruct (strip_shape s) as (ts & -> & Hne & Hlf & Hok & _).
  unfold hygiene. split; [|split].
  - apply concat_lf_nonempty, Hne.
  - apply last_concat_lf, Hne.
  - rewrite split_lf_concat by exact Hlf. apply Forall_app. split; [exact Hok|].
    constructor; [left; reflexivity|constructor].
Qed.

Lemma strip_suffix_cr_ok t : line_ok t -> strip_suffix_cr t = t.
Proof.
  intros H. unfold strip_suffix_cr. rewrite frev_rev. destruct (rev t) as [|c r] eqn:E; [reflexivity|].
  destruct (c =? CR) eqn:Ec; [|reflexivity].
  exfalso. destruct H as [->|H]; [discriminate|].
  rewrite last_rev_head, E in H. cbn in H. apply N.eqb_eq in Ec. subst c. discriminate.
Qed.

Lemma removelast_app_single {A} (l : list A) x : removelast (l ++ [x]) = l.
Proof. rewrite removelast_app by discriminate. cbn. apply app_nil_r. Qed.

Lemma strip_nonempty_eq r :
  r <> [] -> strip r = concat (map (fun l => trim_end l ++ [LF]) (lines r)).
Proof. destruct r; [congruence|reflexivity]. Qed.

Theorem strip_idempotent : forall s : str, strip (strip s) = strip s.
Proof.
  intros s. destruct (strip_shape s) as (ts & Hs & Hne & Hlf & Hok & Htr). rewrite Hs. clear Hs.
  pose proof (concat_lf_nonempty ts Hne) as Hr.
  remember (concat _) as r eqn:Er in Hr |- *.
  rewrite (strip_nonempty_eq _ Hr). rewrite Er at 1. unfold lines.
  rewrite split_lf_concat by exact Hlf. rewrite removelast_app_single, last_last, app_nil_r.
  rewrite map_map. subst r. clear Hne Hr Hlf.
  induction ts as [|t ts IH]; [reflexivity|].
  inversion Hok; inversion Htr; subst. cbn. rewrite strip_suffix_cr_ok by assumption.
  f_equal; [f_equal; assumption|]. apply IH; assumption.
Qed.

(* hygiene_b decides hygiene *)
Lemma line_ok_b_spec l : line_ok_b l = true <-> line_ok l.
Proof.
  unfold line_ok_b, line_ok. rewrite last_rev_head, frev_rev.
  destruct (rev l) as [|c r] eqn:E.
  - split; [intros _; left|reflexivity]. apply (f_equal (@rev N)) in E. rewrite rev_involutive in E. exact E.
  - cbn. rewrite negb_true_iff. split; [intros H; right; exact H|].
    intros [H|H]; [|exact H]. subst l. discriminate.
Qed.

Lemma hygiene_b_spec r : hygiene_b r = true <-> hygiene r.
Proof.
  unfold hygiene_b, hygiene. rewrite last_rev_head, frev_rev.
  destruct (rev r) as [|c q] eqn:E.
  - split; [discriminate|]. intros [H _]. apply (f_equal (@rev N)) in E. rewrite rev_involutive in E. contradiction.
  - cbn [hd]. rewrite andb_true_iff, N.eqb_eq, forallb_forall, Forall_forall.
    split.
    + intros [Hc Hf]. split; [intros ->; discriminate|]. split; [exact Hc|].
      intros x Hx. apply line_ok_b_spec, Hf, Hx.
    + intros (_ & Hc & Hf). split; [exact Hc|]. intros x Hx. apply line_ok_b_spec, Hf, Hx.
Qed.

(* The five vectors of the repository's own unit test *)
Example strip_ex1 : strip [] = [LF]. Proof. reflexivity. Qed.
Example strip_ex2 : strip [SP] = [LF]. Proof. reflexivity. Qed.
Example strip_ex3 : strip [LF] = [LF]. Proof. reflexivity. Qed.
Example strip_ex4 : strip [SP; LF; SP; 45; SP; LF] = [LF; SP; 45; LF]. Proof. reflexivity. Qed.
Example strip_ex5 : strip [SP; LF; SP; 45; SP; LF; SP] = [LF; SP; 45; LF; LF]. Proof. reflexivity. Qed.
(* CRLF, lone CR at the end of the last line, NBSP and ideographic space *)
Example strip_ex6 : strip [97; SP; CR; LF; 98; CR] = [97; LF; 98; LF]. Proof. reflexivity. Qed.
Example strip_ex7 : strip [97; 160; 12288; LF] = [97; LF]. Proof. reflexivity. Qed.
