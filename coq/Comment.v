(* Comment.v — pretty/comment.rs: conversion of line and block comments.
   Block comments are re-aligned relative to their first line. *)
From TV Require Export Layout Tree.

Section Comment.
  Variable swidth : str -> N.
  Notation text := (text swidth).

  Inductive comment_style := Plain | Bullet.

  Definition STAR : N := 42.

  (* text.lines().skip(1).all(|line| line.trim_start().starts_with('*')) *)
  Definition get_comment_style (t : str) : comment_style :=
    if forallb (fun l => match trim_start l with c :: _ => c =? STAR | [] => false end) (tl (lines t))
    then Bullet else Plain.

  (* line.chars().position(|c| c != ' '): None stands for usize::MAX *)
  Fixpoint first_non_space (l : str) (i : N) : option N :=
    match l with
    | [] => None
    | c :: l' => if c =? SP then first_non_space l' (i + 1) else Some i
    end.

  Definition min_opt (a b : option N) : option N :=
    match a, b with
    | None, x | x, None => x
    | Some x, Some y => Some (N.min x y)
    end.

  (* get_follow_leading: None only when there is no follow line; Some None = usize::MAX *)
  Definition get_follow_leading (t : str) : option (option N) :=
    match tl (lines t) with
    | [] => None
    | ls => Some (fold_left (fun acc l => min_opt acc (first_non_space l 0)) ls None)
    end.

  (* &line[leading..] when line.len() > leading; leading counts U+0020 only, so bytes = chars *)
  Definition cut_line (leading : option N) (l : str) : str :=
    match leading with
    | None => []                       (* usize::MAX: line.len() > MAX is false *)
    | Some k => if k <? byte_len l then skipn (N.to_nat k) l else []
    end.

  Definition align_multiline (t : str) : res doc :=
    match get_follow_leading t with
    | None => Panic SFollowLeadingUnwrap
    | Some leading =>
        match lines t with
        | [] => Ok (align DNil)
        | first :: rest =>
            Ok (align (fold_left (fun d l => append (append d hardline) (text (cut_line leading l)))
                                 rest (append DNil (text first))))
        end
    end.

  Definition align_multiline_simple (t : str) : doc :=
    match lines t with
    | [] => hang 1 DNil
    | first :: rest =>
        hang 1 (fold_left (fun d l => append (append d hardline) (text (trim_start l)))
                          rest (append DNil (text (trim_start first))))
    end.

  Definition line_comment (t : str) : doc := text t.

  Definition block_comment (t : str) : res doc :=
    match lines t with
    | [] => Ok (text t)
    | _ =>
        match get_comment_style t with
        | Plain => align_multiline t
        | Bullet => Ok (align_multiline_simple t)
        end
    end.

  (* comment(arena, node) *)
  Definition comment (t : tree) : res doc :=
    match kind_of t with
    | KLineComment => Ok (line_comment (text_of t))
    | KBlockComment => block_comment (text_of t)
    | _ => Panic SCommentUnreachable
    end.
End Comment.
