(* Cli.v — the typstyle command line (crates/typstyle/src/{main,fmt,cli}.rs) as a function over an
   abstract file system, parametric in the library call F (None = syntax error).
   Paths are lists of components relative to the working directory; [] is the working directory. *)
From TV Require Export Str Config.
From TV.gen Require Export CliGen.

Definition path := list str.

Fixpoint path_eqb (a b : path) : bool :=
  match a, b with
  | [], [] => true
  | x :: a', y :: b' => str_eqb x y && path_eqb a' b'
  | _, _ => false
  end.

Inductive fnode :=
| FText (content : str)   (* regular file holding valid UTF-8 *)
| FBin (id : N)           (* regular file that read_to_string rejects (not UTF-8 / unreadable) *)
| FDir
| FOther.                 (* fifo, socket, dangling link ...: not a regular file, not readable *)

Definition fs := list (path * fnode).

Fixpoint lookup (f : fs) (p : path) : option fnode :=
  match f with
  | [] => None
  | (q, n) :: f' => if path_eqb q p then Some n else lookup f' p
  end.

(* std::fs::write on an existing regular file *)
Fixpoint write (f : fs) (p : path) (c : str) : fs :=
  match f with
  | [] => []
  | (q, n) :: f' => (q, if path_eqb q p then FText c else n) :: write f' p c
  end.

Definition DOT : N := 46.
Definition is_hidden (name : str) : bool := starts_with [DOT] name.

(* Path::extension() == Some("typ") : the name ends in ".typ" and has something before it *)
Definition has_typ_ext (name : str) : bool :=
  match frev name with
  | 112 :: 121 :: 116 :: 46 :: _ :: _ => true   (* p y t . x ... *)
  | _ => false
  end.

Fixpoint strip_prefix (r p : path) : option path :=
  match r, p with
  | [], _ => Some p
  | x :: r', y :: p' => if str_eqb x y then strip_prefix r' p' else None
  | _ :: _, [] => None
  end.

Definition is_regular (n : fnode) : bool :=
  match n with FText _ | FBin _ => true | _ => false end.

(* An entry the directory walk from root r yields and format-all considers:
   the root itself, or a path below it none of whose components below the root is hidden;
   a regular file whose name has extension "typ". *)
Definition walk_eligible (r : path) (e : path * fnode) : bool :=
  let (p, n) := e in
  match strip_prefix r p with
  | None => false
  | Some rest =>
      forallb (fun c => negb (is_hidden c)) rest
      && is_regular n
      && has_typ_ext (last p [])
  end.

Record state := {
  s_fs : fs;
  s_printed : list str;                  (* formatter output printed to stdout, in order *)
  s_writes : list (path * str * str);    (* write events: path, old content, new content *)
  s_errors : nat;                        (* I/O errors counted *)
  s_changed : bool;                      (* FormatStatus accumulated with |= *)
}.

Definition init_state (f : fs) : state :=
  {| s_fs := f; s_printed := []; s_writes := []; s_errors := 0; s_changed := false |}.

Section WithFormatter.
  Variable F : config -> str -> option str.

  Definition print_if (b : bool) (s : str) (st : state) : state :=
    if b then {| s_fs := s_fs st; s_printed := s_printed st ++ [s]; s_writes := s_writes st;
                 s_errors := s_errors st; s_changed := s_changed st |}
    else st.

  Definition mark_changed (st : state) : state :=
    {| s_fs := s_fs st; s_printed := s_printed st; s_writes := s_writes st;
       s_errors := s_errors st; s_changed := true |}.

  Definition add_error (st : state) : state :=
    {| s_fs := s_fs st; s_printed := s_printed st; s_writes := s_writes st;
       s_errors := S (s_errors st); s_changed := s_changed st |}.

  Definition do_write (p : path) (old new : str) (st : state) : state :=
    {| s_fs := write (s_fs st) p new; s_printed := s_printed st;
       s_writes := s_writes st ++ [(p, old, new)];
       s_errors := s_errors st; s_changed := s_changed st |}.

  (* fmt.rs format_one on content already read (shared by files and stdin) *)
  Definition format_content_step (inplace check : bool) (cfg : config) (target : option path)
             (c : str) (st : state) : state :=
    let plain := negb inplace && negb check in
    match F cfg c with
    | None => print_if plain c st                       (* Erroneous: print the original *)
    | Some r =>
        if str_eqb r c then print_if plain r st          (* Unchanged *)
        else
          let st := mark_changed st in
          if inplace then
            match target with
            | Some p => do_write p c r st
            | None => st                                 (* excluded by validate_input *)
            end
          else if check then st
          else print_if true r st
    end.

  (* format_many's loop body: format_one(Some(file)) with errors counted, not propagated *)
  Definition file_step (inplace check : bool) (cfg : config) (st : state) (p : path) : state :=
    match lookup (s_fs st) p with
    | Some (FText c) => format_content_step inplace check cfg (Some p) c st
    | _ => add_error st
    end.

  Definition format_many (inplace check : bool) (cfg : config) (inputs : list path) (f : fs) : state :=
    fold_left (file_step inplace check cfg) inputs (init_state f).

  (* format_all's loop body for one walked entry (after the two fix: commits) *)
  Definition all_step (check : bool) (cfg : config) (st : state) (p : path) : state :=
    match lookup (s_fs st) p with
    | Some (FText c) =>
        match F cfg c with
        | None => st
        | Some r =>
            if str_eqb r c then st
            else
              let st := mark_changed st in
              if check then st else do_write p c r st
        end
    | _ => add_error st
    end.

  Definition walk (r : path) (f : fs) : list path :=
    map fst (filter (walk_eligible r) f).

  Definition root_missing (r : path) (f : fs) : bool :=
    match r with
    | [] => false
    | _ => match lookup f r with None => true | Some _ => false end
    end.

  Definition root_of (dir : option path) : path := match dir with Some d => d | None => [] end.

  Definition format_all (check : bool) (cfg : config) (dir : option path) (f : fs) : state :=
    let r := root_of dir in
    let st0 := init_state f in
    let st0 := if root_missing r f then add_error st0 else st0 in
    fold_left (all_step check cfg) (walk r f) st0.

  Inductive invocation :=
  | IFiles (inplace check : bool) (sty : style_args) (inputs : list path)
  | IStdin (inplace check : bool) (sty : style_args) (input : option str)  (* None: stdin is not UTF-8 *)
  | IAll (inplace check : bool) (sty : style_args) (dir : option path).

  Record result := { r_state : state; r_exit : N }.

  (* main.rs: exit code from Result<FormatStatus> *)
  Definition exit_of (check : bool) (st : state) : N :=
    match s_errors st with
    | S _ => 1
    | O => if check && s_changed st then 1 else 0
    end.

  Definition rejected (f : fs) : result := {| r_state := init_state f; r_exit := 2 |}.

  Definition run (inv : invocation) (f : fs) : result :=
    match inv with
    | IFiles inplace check sty inputs =>
        if inplace && check && inplace_conflicts_with_check then rejected f
        else
          match inputs with
          | [] => rejected f   (* the file-list shape needs at least one file; without files it is IStdin *)
          | _ => let st := format_many inplace check (to_config sty) inputs f in
                 {| r_state := st; r_exit := exit_of check st |}
          end
    | IStdin inplace check sty input =>
        if inplace && check && inplace_conflicts_with_check then rejected f
        else if inplace then rejected f   (* validate_input *)
        else
          let st :=
            match input with
            | Some c => format_content_step false check (to_config sty) None c (init_state f)
            | None => add_error (init_state f)
            end in
          {| r_state := st; r_exit := exit_of check st |}
    | IAll inplace check sty dir =>
        if inplace && check && inplace_conflicts_with_check then rejected f
        else
          let st := format_all check (to_config sty) dir f in
          {| r_state := st; r_exit := exit_of check st |}
    end.

  (* lib.rs format_with_width *)
  Definition format_with_width (content : str) (w : N) : str :=
    match F (format_with_width_config w) content with
    | Some o => o
    | None => content
    end.
End WithFormatter.
