(* SafeProofs.v — totality calculus for the monad M and the stylists (C05, C18).
   `tot m k`: from every counter value, m returns normally (no Panic) and raises the counter by at most k. *)
From TV Require Import Conv ConvProofs CostProofs.
From Coq Require Import Lia.

Definition tot {A} (m : M A) (k : N) : Prop := forall n, exists a n', m n = Ok (a, n') /\ n' <= n + k.

Lemma tot_costs {A} (m : M A) k : tot m k -> costs m k.
Proof. intros H n a n' E. destruct (H n) as (a0 & n0 & E0 & Hle). rewrite E in E0. inversion E0; subst. exact Hle. Qed.

Lemma tot_no_panic {A} (m : M A) k : tot m k -> forall n s, m n <> Panic s.
Proof. intros H n s E. destruct (H n) as (a0 & n0 & E0 & _). rewrite E in E0. discriminate. Qed.

Lemma tot_ret {A} (a : A) : tot (ret a) 0.
Proof. intros n. exists a, n. split; [reflexivity|lia]. Qed.
Lemma tot_bump : tot bump 1.
Proof. intros n. exists tt, (n + 1). split; [reflexivity|lia]. Qed.
Lemma tot_lift {A} (a : A) : tot (lift (Ok a)) 0.
Proof. intros n. exists a, n. split; [reflexivity|lia]. Qed.
Lemma tot_weaken {A} (m : M A) k k' : tot m k -> k <= k' -> tot m k'.
Proof. intros H Hle n. destruct (H n) as (a & n' & E & Hn). exists a, n'. split; [exact E|lia]. Qed.
Lemma tot_ret_any {A} (a : A) k : tot (ret a) k.
Proof. eapply tot_weaken; [apply tot_ret|lia]. Qed.
Lemma tot_bind {A B} (m : M A) (f : A -> M B) k1 k2 :
  tot m k1 -> (forall a, tot (f a) k2) -> tot (bind m f) (k1 + k2).
Proof.
  intros Hm Hf n. destruct (Hm n) as (a & n1 & E1 & H1). destruct (Hf a n1) as (b & n2 & E2 & H2).
  exists b, n2. unfold bind. rewrite E1. split; [exact E2|lia].
Qed.
Lemma tot_bind_r {A B} (m : M A) (f : A -> M B) k :
  tot m k -> (forall a, tot (f a) 0) -> tot (bind m f) k.
Proof. intros Hm Hf. replace k with (k + 0) by lia. apply tot_bind; assumption. Qed.
Lemma tot_bind_l {A B} (m : M A) (f : A -> M B) k :
  tot m 0 -> (forall a, tot (f a) k) -> tot (bind m f) k.
Proof. intros Hm Hf. replace k with (0 + k) by lia. apply tot_bind; assumption. Qed.
Lemma tot_if {A} (c : bool) (m1 m2 : M A) k : tot m1 k -> tot m2 k -> tot (if c then m1 else m2) k.
Proof. destruct c; auto. Qed.

Lemma tot_foldM {A S} (f : S -> A -> M S) (g : A -> N) : forall l s,
  (forall s x, In x l -> tot (f s x) (g x)) -> tot (foldM f l s) (sumN g l).
Proof.
  induction l as [|x l IH]; intros s H.
  - cbn. apply tot_ret.
  - cbn [foldM sumN]. apply tot_bind.
    + apply H. left; reflexivity.
    + intros s'. apply IH. intros s0 y Hy. apply H. right; assumption.
Qed.

Section Stylists.
  Variable swidth : str -> N.
  Variable cfg : config.

  Lemma tot_convert_comment b k : is_comment_b b = true -> tot (convert_comment swidth b) k.
  Proof.
    intros H. unfold convert_comment. destruct (comment_no_panic swidth (bt b) H) as (d & ->).
    eapply tot_weaken; [apply tot_lift|lia].
  Qed.

  Lemma tot_flow_like_iter {S} (c : ctx) (children : list bundle) (s0 : S)
        (producer : S -> ctx -> bundle -> M (S * option flow_item)) (g : bundle -> N) :
    (forall s c' b, In b children -> tot (producer s c' b) (g b)) ->
    tot (flow_like_iter swidth c children s0 producer) (sumN g children).
  Proof.
    intros Hp. unfold flow_like_iter.
    apply tot_bind_r.
    - apply tot_foldM. intros st child Hin.
      destruct st as [[[fl plc] ph] s].
      destruct (is_keyword (bk child) && negb (kin (bk child) [KNone; KAuto])).
      { apply tot_ret_any. }
      destruct (is_comment_b child) eqn:Ec.
      { apply tot_bind_l; [apply tot_convert_comment; exact Ec|]. intros d. apply tot_ret_any. }
      destruct (plc && kind_eqb (bk child) KSpace && has_lb (tx child)).
      { apply tot_ret_any. }
      destruct (kind_eqb (bk child) KHash).
      { apply tot_ret_any. }
      apply tot_bind_r; [apply Hp; assumption|].
      intros [s' it]. apply tot_ret.
    - intros [[[fl plc] ph] s]. apply tot_ret.
  Qed.

  Lemma tot_flow_like (c : ctx) (children : list bundle)
        (producer : ctx -> bundle -> M (option flow_item)) (g : bundle -> N) :
    (forall c' b, In b children -> tot (producer c' b) (g b)) ->
    tot (flow_like swidth c children producer) (sumN g children).
  Proof.
    intros Hp. unfold flow_like. apply tot_flow_like_iter.
    intros s c' b Hin. apply tot_bind_r; [apply Hp; assumption|]. intros it. apply tot_ret.
  Qed.

  Lemma tot_lst_process_trivia l node : tot (lst_process_trivia swidth l node) 0.
  Proof.
    unfold lst_process_trivia.
    destruct (bk node) eqn:Ek; try apply tot_ret.
    - apply tot_bind_r; [apply tot_convert_comment; unfold is_comment_b, is_comment_node; unfold bk in Ek; rewrite Ek; reflexivity|].
      intros d. apply tot_ret.
    - apply tot_bind_r; [apply tot_convert_comment; unfold is_comment_b, is_comment_node; unfold bk in Ek; rewrite Ek; reflexivity|].
      intros d. apply tot_ret.
    - destruct (0 <? count_lb (tx node)); [|apply tot_ret].
      destruct (l_keep (set_can_attach (attach_or_detach_comments l) false)); [|apply tot_ret].
      match goal with |- tot (if ?b then _ else _) _ => destruct b end; apply tot_ret.
  Qed.

  Lemma tot_lst_process (l : lst) (c : ctx) (nodes : list bundle)
        (checker : ctx -> bundle -> M (option doc)) (g : bundle -> N) :
    (forall c' b, In b nodes -> tot (checker c' b) (g b)) ->
    tot (lst_process swidth l c nodes checker) (sumN g nodes).
  Proof.
    intros Hc. unfold lst_process.
    apply tot_bind_r.
    - apply tot_foldM. intros l0 node Hin.
      apply tot_bind_r; [apply Hc; assumption|].
      intros [body|]; [apply tot_ret|apply tot_lst_process_trivia].
    - intros l'. apply tot_ret.
  Qed.

  Lemma tot_plain_process (c : ctx) (nodes : list bundle)
        (conv : ctx -> bundle -> M (option doc)) (g : bundle -> N) :
    (forall c' b, In b nodes -> tot (conv c' b) (g b)) ->
    tot (plain_process swidth cfg c nodes conv) (sumN g nodes).
  Proof.
    intros Hc. unfold plain_process.
    apply tot_bind_r.
    - apply tot_foldM. intros [items ml] child Hin.
      assert (Hdef : tot (o <- conv c child ;;
                            match o with
                            | Some d => ret (items ++ [PItem d], ml)
                            | None => ret (items, ml)
                            end) (g child)).
      { apply tot_bind_r; [apply Hc; assumption|]. intros [d|]; apply tot_ret. }
      destruct (bk child) eqn:Ek; try exact Hdef.
      + apply tot_bind_l; [apply tot_convert_comment; unfold is_comment_b, is_comment_node; unfold bk in Ek; rewrite Ek; reflexivity|].
        intros d. apply tot_ret_any.
      + apply tot_bind_l; [apply tot_convert_comment; unfold is_comment_b, is_comment_node; unfold bk in Ek; rewrite Ek; reflexivity|].
        intros d. apply tot_ret_any.
      + destruct (0 <? count_lb (tx child)); [|apply tot_ret_any].
        destruct items; apply tot_ret_any.
      + apply tot_ret_any.
    - intros [items ml]. apply tot_ret.
  Qed.
End Stylists.

(* ---------- partial-correctness facts, to carry a postcondition across a bind ---------- *)
Definition post {A} (m : M A) (Q : A -> Prop) : Prop := forall n a n', m n = Ok (a, n') -> Q a.

Lemma post_ret {A} (a : A) (Q : A -> Prop) : Q a -> post (ret a) Q.
Proof. intros H n a' n' E. inversion E; subst. exact H. Qed.
Lemma post_bind {A B} (m : M A) (f : A -> M B) (P : A -> Prop) (Q : B -> Prop) :
  post m P -> (forall a, P a -> post (f a) Q) -> post (bind m f) Q.
Proof.
  intros Hm Hf n b n' E. unfold bind in E. destruct (m n) as [[a n1]|s] eqn:Em; [|discriminate].
  apply (Hf a (Hm n a n1 Em) n1 b n' E).
Qed.
Lemma post_any {A} (m : M A) : post m (fun _ => True).
Proof. intros n a n' _. exact I. Qed.
Lemma post_weaken {A} (m : M A) (P Q : A -> Prop) : post m P -> (forall a, P a -> Q a) -> post m Q.
Proof. intros H HPQ n a n' E. apply HPQ. apply (H n a n' E). Qed.
Lemma post_foldM {A S} (f : S -> A -> M S) (I : S -> Prop) : forall l s,
  I s -> (forall s x, In x l -> I s -> post (f s x) I) -> post (foldM f l s) I.
Proof.
  induction l as [|x l IH]; intros s Hs Hf.
  - cbn. apply post_ret. exact Hs.
  - cbn [foldM]. apply (post_bind _ _ I).
    + apply Hf; [left; reflexivity|exact Hs].
    + intros s' Hs'. apply IH; [exact Hs'|]. intros s0 y Hy. apply Hf. right; exact Hy.
Qed.
Lemma post_foldM_last {A S} (f : S -> A -> M S) (Q : S -> Prop) x : forall l s,
  (forall s', post (f s' x) Q) -> post (foldM f (l ++ [x]) s) Q.
Proof.
  induction l as [|y l IH]; intros s H; cbn [app foldM].
  - apply (post_bind _ _ Q); [apply H|]. intros a Ha. apply post_ret. exact Ha.
  - apply (post_bind _ _ (fun _ => True)); [apply post_any|]. intros s' _. apply IH. exact H.
Qed.

Lemma tot_bind_post {A B} (m : M A) (f : A -> M B) (Q : A -> Prop) k1 k2 :
  tot m k1 -> post m Q -> (forall a, Q a -> tot (f a) k2) -> tot (bind m f) (k1 + k2).
Proof.
  intros Hm HQ Hf n. destruct (Hm n) as (a & n1 & E1 & H1).
  destruct (Hf a (HQ n a n1 E1) n1) as (b & n2 & E2 & H2).
  exists b, n2. unfold bind. rewrite E1. split; [exact E2|lia].
Qed.

(* ---------- the chain printer does not fail on a chain that holds more than attached comments ---------- *)
Definition is_solid_item (it : chain_item) : bool := match it with CAttached _ => false | _ => true end.
Definition solid (ch : chain) : Prop := existsb is_solid_item (ch_items ch) = true.

Lemma add_to_last_nonempty docs d : docs <> [] -> add_to_last docs d <> [].
Proof.
  intros H. unfold add_to_last. destruct (rev docs) as [|l r] eqn:E.
  - apply (f_equal (@rev doc)) in E. rewrite rev_involutive in E. cbn in E. contradiction.
  - intros H0. apply app_eq_nil in H0. destruct H0 as [_ H0]. discriminate.
Qed.

Lemma chain_print_ok swidth tab ch sty : solid ch -> exists d, chain_print_doc swidth tab ch sty = Ok d.
Proof.
  unfold solid, chain_print_doc. intros Hs.
  match goal with |- context [fold_left ?f (ch_items ch) ?a] => set (step := f); set (acc0 := a) end.
  assert (Hinv : forall items acc,
            (snd (fst acc) = false -> fst (fst (fst acc)) <> []) ->
            (fst (fst (fst acc)) <> [] \/ existsb is_solid_item items = true) ->
            fst (fst (fst (fold_left step items acc))) <> []).
  { induction items as [|it items IH]; intros [[[docs hb] leading] sa] Hl Hne; cbn [fst snd] in *.
    - cbn [fold_left fst]. destruct Hne as [Hne|Hne]; [exact Hne|cbn in Hne; discriminate].
    - cbn [fold_left]. apply IH.
      + unfold step. destruct it; cbn [fst snd].
        * intros _. destruct leading; [intros H0; apply app_eq_nil in H0; destruct H0; discriminate|].
          apply add_to_last_nonempty. apply Hl. reflexivity.
        * intros _ H0. apply app_eq_nil in H0. destruct H0; discriminate.
        * intros _. destruct leading; [intros H0; apply app_eq_nil in H0; destruct H0; discriminate|].
          apply add_to_last_nonempty. apply Hl. reflexivity.
        * intros Hf. apply add_to_last_nonempty. apply Hl. exact Hf.
        * intros Hf. discriminate.
      + cbn [existsb] in Hne. unfold step. destruct it; cbn [fst snd is_solid_item orb] in *.
        * left. destruct leading; [intros H0; apply app_eq_nil in H0; destruct H0; discriminate|].
          apply add_to_last_nonempty. apply Hl. reflexivity.
        * left. intros H0. apply app_eq_nil in H0. destruct H0; discriminate.
        * left. destruct leading; [intros H0; apply app_eq_nil in H0; destruct H0; discriminate|].
          apply add_to_last_nonempty. apply Hl. reflexivity.
        * destruct Hne as [Hne|Hne]; [left; apply add_to_last_nonempty; exact Hne|right; exact Hne].
        * left. intros H0. apply app_eq_nil in H0. destruct H0; discriminate. }
  specialize (Hinv (ch_items ch) acc0).
  destruct (fold_left step (ch_items ch) acc0) as [[[docs hb] leading] sa]. cbn [fst snd] in Hinv.
  destruct docs as [|first follow].
  - exfalso. apply Hinv; [unfold acc0; cbn; discriminate|right; exact Hs|reflexivity].
  - eexists; reflexivity.
Qed.
