(* Ext.v — ext.rs StrExt::has_linebreak / count_linebreaks; which characters count is read from
   the source by tools/gen_tables.py (LINEBREAK_MODE). *)
From TV Require Export Str.
From TV.gen Require Export Tables.

(* ext.rs, selected by the generated LINEBREAK_MODE *)
Definition nl_test (c : N) : bool := if LINEBREAK_MODE =? 0 then c =? LF else is_typst_newline c.
Definition has_lb (s : str) : bool := existsb nl_test s.
(* count_linebreaks. Mode 1 counts like typst's count_newlines: CR LF is one break. *)
Fixpoint count_nl_typst (s : str) : N :=
  match s with
  | [] => 0
  | c :: s' =>
      if is_typst_newline c then
        match s' with
        | d :: s'' => if (c =? CR) && (d =? LF) then 1 + count_nl_typst s'' else 1 + count_nl_typst s'
        | [] => 1
        end
      else count_nl_typst s'
  end.
Definition count_lb (s : str) : N :=
  if LINEBREAK_MODE =? 0 then count_linebreaks s else count_nl_typst s.

