(* AttrShape.v — the attribute passes change attributes only: kinds, texts and the child structure of every
   node are those of the parsed tree, so shape predicates (schema clauses, node counts) may be evaluated on either. *)
From TV Require Import Attr AttrProofs.
From Coq Require Import Lia.

Fixpoint erase (t : tree) : tree :=
  match t with
  | Leaf k s _ => Leaf k s no_attrs
  | Inner k cs _ => Inner k (map erase cs) no_attrs
  end.

Lemma erase_set_disabled t : erase (set_disabled t) = erase t.
Proof. destruct t; reflexivity. Qed.
Lemma erase_set_commented b t : erase (set_commented b t) = erase t.
Proof. destruct b; destruct t; reflexivity. Qed.
Lemma erase_set_multiline ml fl t : erase (set_multiline ml fl t) = erase t.
Proof. destruct t; reflexivity. Qed.

Lemma erase_no_format_children (rec : tree -> tree) cs :
  Forall (fun c => erase (rec c) = erase c) cs ->
  forall dn cm, map erase (fst (no_format_children rec cs dn cm)) = map erase cs.
Proof.
  induction 1 as [|c rest Hc Hrest IH]; intros dn cm; cbn [no_format_children]; [reflexivity|].
  destruct (is_comment_node c).
  - destruct (contains typstyle_off (text_of c)).
    + specialize (IH true true). destruct (no_format_children rec rest true true) as [r cm']. cbn [fst map] in *.
      rewrite erase_set_disabled, IH. reflexivity.
    + specialize (IH dn true). destruct (no_format_children rec rest dn true) as [r cm']. cbn [fst map] in *.
      rewrite IH. reflexivity.
  - destruct (dn && negb (skips_directive c)).
    + specialize (IH false cm). destruct (no_format_children rec rest false cm) as [r cm']. cbn [fst map] in *.
      rewrite erase_set_disabled, IH. reflexivity.
    + specialize (IH dn cm). destruct (no_format_children rec rest dn cm) as [r cm']. cbn [fst map] in *.
      rewrite Hc, IH. reflexivity.
Qed.

Lemma erase_no_format t : erase (no_format t) = erase t.
Proof.
  induction t as [k s a|k cs a IH] using tree_ind'; [reflexivity|].
  pose proof (no_format_inner k cs a) as E.
  pose proof (erase_no_format_children no_format cs IH false false) as H.
  destruct (no_format_children no_format cs false false) as [cs' cm]. cbn [fst] in H.
  etransitivity; [apply (f_equal erase E)|].
  rewrite erase_set_commented. cbn [erase]. rewrite H. reflexivity.
Qed.

Lemma erase_multiline t : erase (fst (multiline t)) = erase t.
Proof.
  induction t as [k s a|k cs a IH] using tree_ind'; [reflexivity|].
  cbn [multiline].
  match goal with |- context [?g cs false] => set (go := g) end.
  assert (Hgo : forall l, Forall (fun c => erase (fst (multiline c)) = erase c) l ->
                forall seen, map erase (fst (fst (go l seen))) = map erase l).
  { induction 1 as [|c rest Hc Hrest IHl]; intros seen; [reflexivity|].
    cbn [go]. fold go. destruct (multiline c) as [c' mlc] eqn:Em. cbn [fst] in Hc.
    destruct (is_kind KSpace c).
    - specialize (IHl true). destruct (go rest true) as [[r ml] fl]. cbn [fst map] in *. rewrite Hc, IHl. reflexivity.
    - destruct (is_kind KBlockComment c).
      + specialize (IHl seen). destruct (go rest seen) as [[r ml] fl]. cbn [fst map] in *. rewrite Hc, IHl. reflexivity.
      + specialize (IHl seen). destruct (go rest seen) as [[r ml] fl]. cbn [fst map] in *. rewrite Hc, IHl. reflexivity. }
  specialize (Hgo cs IH false). destruct (go cs false) as [[cs' ml] fl]. cbn [fst] in *.
  rewrite erase_set_multiline. cbn [erase]. rewrite Hgo. reflexivity.
Qed.

Theorem erase_annotate t : erase (annotate t) = erase t.
Proof. unfold annotate. rewrite erase_multiline, erase_no_format. reflexivity. Qed.

(* node counts agree *)
Lemma tree_size_erase t : tree_size (erase t) = tree_size t.
Proof.
  induction t as [k s a|k cs a IH] using tree_ind'; [reflexivity|].
  cbn [erase tree_size]. f_equal. induction IH as [|c rest Hc Hrest IHl]; cbn [map fold_right]; [reflexivity|].
  rewrite Hc, IHl. reflexivity.
Qed.

Theorem tree_size_annotate t : tree_size (annotate t) = tree_size t.
Proof. rewrite <- (tree_size_erase (annotate t)), erase_annotate, tree_size_erase. reflexivity. Qed.

Lemma kind_of_erase t : kind_of (erase t) = kind_of t.
Proof. destruct t; reflexivity. Qed.
Lemma kind_of_annotate t : kind_of (annotate t) = kind_of t.
Proof. rewrite <- (kind_of_erase (annotate t)), erase_annotate, kind_of_erase. reflexivity. Qed.
