(* SeqProofs.v — how the builder's smart constructors act on atom sequences (RenderProofs.seqs). *)
From TV Require Import Render RenderProofs Layout.
From Coq Require Import Lia.

Lemma seqs_nil_inv x : seqs DNil x -> x = [].
Proof. intros H; inversion H; reflexivity. Qed.

Lemma seqs_append a b x :
  seqs (append a b) x -> exists xa xb, x = xa ++ xb /\ seqs a xa /\ seqs b xb.
Proof.
  unfold append. intros H.
  destruct a; try (destruct b; try (inversion H; subst; eauto; fail);
                   exists x, []; rewrite app_nil_r; repeat split; [assumption|constructor]).
  exists [], x. repeat split; [constructor|assumption].
Qed.

Lemma seqs_append_intro a b xa xb : seqs a xa -> seqs b xb -> seqs (append a b) (xa ++ xb).
Proof.
  intros Ha Hb. unfold append.
  destruct a; try (destruct b; try (constructor; assumption);
                   apply seqs_nil_inv in Hb; subst; rewrite app_nil_r; assumption).
  apply seqs_nil_inv in Ha; subst; assumption.
Qed.

Lemma seqs_hardline x : seqs hardline x -> x = [ALine].
Proof. intros H; inversion H; reflexivity. Qed.

Lemma seqs_space x : seqs space x -> x = [AText [SP]].
Proof. intros H; inversion H; reflexivity. Qed.

Lemma seqs_line x : seqs line x -> x = [ALine] \/ x = [AText [SP]].
Proof.
  intros H; inversion H; subst.
  - left; apply seqs_hardline; assumption.
  - right; apply seqs_space; assumption.
Qed.

Lemma seqs_line_ x : seqs line_ x -> x = [ALine] \/ x = [].
Proof.
  intros H; inversion H; subst.
  - left; apply seqs_hardline; assumption.
  - right; apply seqs_nil_inv; assumption.
Qed.

Lemma seqs_text sw s x : seqs (text sw s) x -> (s = [] /\ x = []) \/ x = [AText s].
Proof.
  unfold text. destruct s as [|c s]; intros H.
  - left. split; [reflexivity|apply seqs_nil_inv; assumption].
  - right. destruct (is_ascii (c :: s)); inversion H; reflexivity.
Qed.

Lemma seqs_nest k d x : seqs (nest k d) x -> seqs d x.
Proof.
  unfold nest. destruct d; try (intros H; exact H);
    destruct (Z.eqb k 0); intros H; try exact H; inversion H; assumption.
Qed.

Lemma seqs_group d x : seqs (group d) x -> seqs d x.
Proof.
  unfold group. destruct d; intros H; try exact H; inversion H; assumption.
Qed.

Lemma seqs_enclose a b d x :
  seqs (enclose a b d) x -> exists xa xd xb, x = xa ++ xd ++ xb /\ seqs a xa /\ seqs d xd /\ seqs b xb.
Proof.
  unfold enclose. intros H.
  apply seqs_append in H. destruct H as (x1 & xb & -> & H1 & Hb).
  apply seqs_append in H1. destruct H1 as (xa & xd & -> & Ha & Hd).
  exists xa, xd, xb. rewrite <- app_assoc. auto.
Qed.

Lemma seqs_repeat_n_aux d n acc x :
  (forall y, seqs d y -> y = [ALine]) ->
  seqs (repeat_n_aux d n acc) x -> exists x0, seqs acc x0 /\ x = x0 ++ repeat ALine n.
Proof.
  intros Hd. revert acc x. induction n as [|n IH]; intros acc x H; cbn in *.
  - exists x. rewrite app_nil_r. auto.
  - apply IH in H. destruct H as (x0 & H0 & ->).
    apply seqs_append in H0. destruct H0 as (xa & xb & -> & Ha & Hb).
    apply Hd in Hb. subst. exists xa. split; [assumption|].
    rewrite <- app_assoc. reflexivity.
Qed.

Lemma seqs_repeat_hardline n x : seqs (repeat_n hardline n) x -> x = repeat ALine (N.to_nat n).
Proof.
  unfold repeat_n. intros H.
  apply (seqs_repeat_n_aux hardline) in H; [|apply seqs_hardline].
  destruct H as (x0 & H0 & ->). apply seqs_nil_inv in H0. subst. reflexivity.
Qed.

(* an atom sequence that consists of blanks and line breaks only *)
Definition ws_atom (a : atom) : Prop := a = ALine \/ a = AText [SP].
