(* Format.v — lib.rs: Typstyle::format_source_inspect / format_content and format_with_width,
   over the parsed tree (the parser is outside the model). *)
From TV Require Export Conv Render Post.
From TV.gen Require Import CliGen.

Inductive fres :=
| FOk (out : str) (conversions : N)
| FErr                      (* Error::SyntaxError *)
| FPanic (s : site)
| FFuel.                    (* the renderer model ran out of fuel: excluded by Render's fuel theorem *)

Section Format.
  Variable swidth : str -> N.

  Definition convert_root (cfg : config) (t : tree) : res (doc * N) :=
    if negb (kind_eqb (kind_of t) KMarkup) then Panic SRootCast
    else run_m (convert_markup_root swidth cfg (annotate t) ctx_default).

  Definition format_source (cfg : config) (t : tree) : fres :=
    if erroneous t then FErr
    else match convert_root cfg t with
         | Panic s => FPanic s
         | Ok (d, n) =>
             match render (max_width cfg) d with
             | Some s => FOk (strip s) n
             | None => FFuel
             end
         end.

  (* format_with_width(content, width) on the tree parsed from `content` *)
  Definition format_with_width_tree (content : str) (t : tree) (w : N) : fres :=
    match format_source (format_with_width_config w) t with
    | FOk s n => FOk s n
    | FErr => FOk content 0
    | x => x
    end.
End Format.
