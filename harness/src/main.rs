//! tyv — implementation-side harness for the Coq model of typstyle.
//! Line-oriented: every mode reads cases from stdin (one per line) and prints one result per line.
//! Strings travel hex-encoded (UTF-8 bytes); "-" is the empty string.

mod dump;
mod gen;
mod obs;
mod oracle;
mod rng;

use std::io::{self, BufRead, Write};
use std::panic;

use typst_syntax::Source;
use typstyle_core::{Config, Typstyle};

pub fn hex(s: &str) -> String {
    if s.is_empty() {
        return "-".to_string();
    }
    let mut out = String::with_capacity(s.len() * 2);
    for b in s.bytes() {
        out.push_str(&format!("{:02x}", b));
    }
    out
}

pub fn unhex(h: &str) -> String {
    if h == "-" {
        return String::new();
    }
    let bytes: Vec<u8> = (0..h.len() / 2)
        .map(|i| u8::from_str_radix(&h[2 * i..2 * i + 2], 16).expect("hex"))
        .collect();
    String::from_utf8(bytes).expect("utf8")
}

pub fn config(width: usize, tab: usize, reorder: bool) -> Config {
    let mut c = Config::new().with_width(width).with_tab_spaces(tab);
    c.reorder_import_items = reorder;
    c
}

/// Parse "W TAB REORDER" from an iterator of fields.
fn cfg_fields<'a>(it: &mut impl Iterator<Item = &'a str>) -> Config {
    let w: usize = it.next().unwrap().parse().unwrap();
    let t: usize = it.next().unwrap().parse().unwrap();
    let r: usize = it.next().unwrap().parse().unwrap();
    config(w, t, r != 0)
}

pub enum Outcome {
    Ok(String),
    Err,
    Panic(String),
}

pub fn catch<T>(f: impl FnOnce() -> T + panic::UnwindSafe) -> Result<T, String> {
    panic::catch_unwind(f).map_err(|e| {
        if let Some(s) = e.downcast_ref::<&str>() {
            s.to_string()
        } else if let Some(s) = e.downcast_ref::<String>() {
            s.clone()
        } else {
            "panic".to_string()
        }
    })
}

pub fn format(cfg: Config, src: &str) -> Outcome {
    let src = src.to_string();
    match catch(move || Typstyle::new(cfg).format_content(src)) {
        Ok(Ok(s)) => Outcome::Ok(s),
        Ok(Err(_)) => Outcome::Err,
        Err(p) => Outcome::Panic(p),
    }
}

fn main() {
    panic::set_hook(Box::new(|_| {}));
    let args: Vec<String> = std::env::args().collect();
    let mode = args.get(1).map(|s| s.as_str()).unwrap_or("");
    let stdin = io::stdin();
    let stdout = io::stdout();
    // line-buffered: when a case kills the process (abort, stack overflow) the caller knows how many were answered
    let mut out = io::LineWriter::new(stdout.lock());
    match mode {
        // HEX -> HEX
        "strip" => {
            for line in stdin.lock().lines() {
                let line = line.unwrap();
                let s = unhex(line.trim());
                let r = typstyle_core::verif_hooks::strip_trailing_whitespace(&s);
                writeln!(out, "{}", hex(&r)).unwrap();
            }
        }
        // W TAB REORDER HEX -> ok HEX | err | panic MSGHEX
        "fmt" => {
            for line in stdin.lock().lines() {
                let line = line.unwrap();
                let mut it = line.split_whitespace();
                let cfg = cfg_fields(&mut it);
                let src = unhex(it.next().unwrap());
                match format(cfg, &src) {
                    Outcome::Ok(s) => writeln!(out, "ok {}", hex(&s)).unwrap(),
                    Outcome::Err => writeln!(out, "err").unwrap(),
                    Outcome::Panic(p) => writeln!(out, "panic {}", hex(&p)).unwrap(),
                }
            }
        }
        // HEX -> "HEX WIDTH" pairs: display width (the renderer's measure) of every distinct non-ASCII or control
        // character of the source; the model's width oracle falls back on their sum for a text it has no entry for
        "charw" => {
            use unicode_width::UnicodeWidthStr;
            for line in stdin.lock().lines() {
                let line = line.unwrap();
                let src = unhex(line.trim());
                let mut seen: Vec<char> = src.chars().filter(|c| !c.is_ascii() || c.is_ascii_control()).collect();
                seen.sort();
                seen.dedup();
                let v: Vec<String> = seen
                    .iter()
                    .map(|c| {
                        let t = c.to_string();
                        format!("{} {}", hex(&t), UnicodeWidthStr::width(t.as_str()))
                    })
                    .collect();
                writeln!(out, "{}", v.join(" ")).unwrap();
            }
        }
        // HEX -> 0-based numbers of the lines that begin inside a block comment, a raw element or a string literal
        // (their indentation is part of that token, not layout)
        "cmtlines" => {
            fn walk(n: &typst_syntax::SyntaxNode, off: &mut usize, text: &str, out: &mut Vec<usize>) {
                use typst_syntax::SyntaxKind as K;
                let len = n.len();
                if matches!(n.kind(), K::BlockComment | K::Raw | K::Str) {
                    let start_line = text[..*off].matches('\n').count();
                    let inner = text[*off..*off + len].matches('\n').count();
                    for k in 1..=inner {
                        out.push(start_line + k);
                    }
                    *off += len;
                    return;
                }
                if n.children().len() == 0 {
                    *off += len;
                    return;
                }
                for c in n.children() {
                    walk(c, off, text, out);
                }
            }
            for line in stdin.lock().lines() {
                let line = line.unwrap();
                let src = unhex(line.trim());
                let source = Source::detached(src.clone());
                let mut v = Vec::new();
                let mut off = 0usize;
                walk(source.root(), &mut off, &src, &mut v);
                let w: Vec<String> = v.iter().map(|x| x.to_string()).collect();
                writeln!(out, "{}", w.join(" ")).unwrap();
            }
        }
        // HEX -> tree dump
        "tree" => {
            for line in stdin.lock().lines() {
                let line = line.unwrap();
                let src = unhex(line.trim());
                let source = Source::detached(src);
                writeln!(out, "{}", dump::tree(source.root())).unwrap();
            }
        }
        // W TAB REORDER HEX -> doc dump | err
        "doc" => {
            for line in stdin.lock().lines() {
                let line = line.unwrap();
                let mut it = line.split_whitespace();
                let cfg = cfg_fields(&mut it);
                let src = unhex(it.next().unwrap());
                writeln!(out, "{}", dump::doc_of_source(cfg, &src)).unwrap();
            }
        }
        // HEX -> one hex digit per node in pre-order: bit0 disabled, bit1 has_comment, bit2 multiline, bit3 flavor
        "attrs" => {
            for line in stdin.lock().lines() {
                let line = line.unwrap();
                let src = unhex(line.trim());
                let source = Source::detached(src);
                let store = typstyle_core::AttrStore::new(source.root());
                let mut s = String::new();
                dump::attrs(source.root(), &store, &mut s);
                writeln!(out, "{}", s).unwrap();
            }
        }
        // W TAB REORDER HEX -> TREE \t (DOC \t OUTHEX \t COUNT | err | panic MSGHEX)
        "full" => {
            for line in stdin.lock().lines() {
                let line = line.unwrap();
                let mut it = line.split_whitespace();
                let cfg = cfg_fields(&mut it);
                let src = unhex(it.next().unwrap());
                let source = Source::detached(src.clone());
                let tree = dump::tree(source.root());
                let res = catch(std::panic::AssertUnwindSafe(|| {
                    typstyle_core::verif_hooks::reset();
                    let mut d = String::new();
                    let r = Typstyle::new(cfg).format_source_inspect(&source, |doc| {
                        d = dump::doc_of_arena(doc);
                    });
                    (r, d, typstyle_core::verif_hooks::get())
                }));
                match res {
                    Ok((Ok(o), d, n)) => writeln!(out, "{}\t{}\t{}\t{}", tree, d, hex(&o), n).unwrap(),
                    Ok((Err(_), _, _)) => writeln!(out, "{}\terr", tree).unwrap(),
                    Err(p) => writeln!(out, "{}\tpanic {}", tree, hex(&p)).unwrap(),
                }
            }
        }
        // W TAB REORDER HEX -> key=value fields (tab separated): the property oracles on (input, output)
        "oracle" => {
            for line in stdin.lock().lines() {
                let line = line.unwrap();
                let mut it = line.split_whitespace();
                let w: usize = it.next().unwrap().parse().unwrap();
                let t: usize = it.next().unwrap().parse().unwrap();
                let r: usize = it.next().unwrap().parse().unwrap();
                let src = unhex(it.next().unwrap());
                writeln!(out, "{}", oracle::run(w, t, r != 0, &src)).unwrap();
            }
        }
        // HEX HEX -> per-property equality of observations of the two texts
        "obscmp" => {
            for line in stdin.lock().lines() {
                let line = line.unwrap();
                let mut it = line.split_whitespace();
                let a = unhex(it.next().unwrap());
                let b = unhex(it.next().unwrap());
                writeln!(out, "{}", oracle::obscmp(&a, &b)).unwrap();
            }
        }
        // W TAB START END HEX -> class=ok|err|panic, rs, re, out, and the C13 oracle fields
        "range" => {
            for line in stdin.lock().lines() {
                let line = line.unwrap();
                let mut it = line.split_whitespace();
                let w: usize = it.next().unwrap().parse().unwrap();
                let t: usize = it.next().unwrap().parse().unwrap();
                let a: usize = it.next().unwrap().parse().unwrap();
                let b: usize = it.next().unwrap().parse().unwrap();
                let src = unhex(it.next().unwrap());
                writeln!(out, "{}", oracle::range(w, t, a, b, &src)).unwrap();
            }
        }
        // sched THREADS ROUNDS SEED (stdin: W TAB REORDER HEX per line)
        // -> first the sequential reference results (one per line: ok HEX | err | panic), then a line
        //    "mismatch=N" with the number of results, over all threads and rounds, that differ from the reference,
        //    then up to 5 lines "diff INDEX THREAD ROUND HEX"
        "sched" => {
            let threads: usize = args[2].parse().unwrap();
            let rounds: usize = args[3].parse().unwrap();
            let seed: u64 = args[4].parse().unwrap();
            let cases: Vec<(Config, String)> = stdin
                .lock()
                .lines()
                .map(|l| {
                    let l = l.unwrap();
                    let mut it = l.split_whitespace();
                    let cfg = cfg_fields(&mut it);
                    (cfg, unhex(it.next().unwrap()))
                })
                .collect();
            let render = |o: Outcome| match o {
                Outcome::Ok(s) => format!("ok {}", hex(&s)),
                Outcome::Err => "err".to_string(),
                Outcome::Panic(_) => "panic".to_string(),
            };
            let reference: Vec<String> = cases.iter().map(|(c, s)| render(format(c.clone(), s))).collect();
            for r in &reference {
                writeln!(out, "{}", r).unwrap();
            }
            let cases = std::sync::Arc::new(cases);
            let reference = std::sync::Arc::new(reference);
            let mut handles = Vec::new();
            for th in 0..threads {
                let cases = cases.clone();
                let reference = reference.clone();
                handles.push(std::thread::spawn(move || {
                    let mut rng = rng::Rng::new(seed.wrapping_mul(1000).wrapping_add(th as u64));
                    let mut diffs: Vec<(usize, usize, usize, String)> = Vec::new();
                    let mut count = 0usize;
                    for round in 0..rounds {
                        // a fresh random order per thread and round: interleaves documents and configurations
                        let mut order: Vec<usize> = (0..cases.len()).collect();
                        for i in (1..order.len()).rev() {
                            let j = rng.below(i + 1);
                            order.swap(i, j);
                        }
                        for i in order {
                            let (c, s) = &cases[i];
                            let r = match format(c.clone(), s) {
                                Outcome::Ok(s) => format!("ok {}", hex(&s)),
                                Outcome::Err => "err".to_string(),
                                Outcome::Panic(_) => "panic".to_string(),
                            };
                            if r != reference[i] {
                                count += 1;
                                if diffs.len() < 3 {
                                    diffs.push((i, th, round, r));
                                }
                            }
                        }
                    }
                    (count, diffs)
                }));
            }
            let mut total = 0;
            let mut all: Vec<(usize, usize, usize, String)> = Vec::new();
            for h in handles {
                let (c, d) = h.join().unwrap();
                total += c;
                all.extend(d);
            }
            writeln!(out, "mismatch={}", total).unwrap();
            for (i, th, round, r) in all.iter().take(5) {
                writeln!(out, "diff {} {} {} {}", i, th, round, r).unwrap();
            }
        }
        // W TAB REORDER SRCHEX OUTHEX -> the oracle fields with OUT judged as the output for SRC
        "oraclefor" => {
            for line in stdin.lock().lines() {
                let line = line.unwrap();
                let mut it = line.split_whitespace();
                let w: usize = it.next().unwrap().parse().unwrap();
                let t: usize = it.next().unwrap().parse().unwrap();
                let r: usize = it.next().unwrap().parse().unwrap();
                let src = unhex(it.next().unwrap());
                let given = unhex(it.next().unwrap());
                writeln!(out, "{}", oracle::run_with(w, t, r != 0, &src, Some(&given))).unwrap();
            }
        }
        // W -> chain_width
        "chainw" => {
            for line in stdin.lock().lines() {
                let w: usize = line.unwrap().trim().parse().unwrap();
                writeln!(out, "{}", Config::new().with_width(w).chain_width()).unwrap();
            }
        }
        // W TAB REORDER HEX -> DOC \t HEX(doc.pretty(W), before post-processing) | err | panic
        "docr" => {
            for line in stdin.lock().lines() {
                let line = line.unwrap();
                let mut it = line.split_whitespace();
                let cfg = cfg_fields(&mut it);
                let src = unhex(it.next().unwrap());
                writeln!(out, "{}", dump::doc_and_render(cfg, &src)).unwrap();
            }
        }
        _ => {
            if !gen::dispatch(mode, &args[2..], &mut out) {
                eprintln!("unknown mode {mode}");
                std::process::exit(2);
            }
        }
    }
    out.flush().unwrap();
}
