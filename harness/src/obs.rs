//! Property observations on syntax trees (DESIGN.md Appendix E) and the executable oracles built
//! from them. They are used by the *search* for failing inputs and never stand in for a theorem.
use typst_syntax::{ast, is_newline, SyntaxKind as K, SyntaxNode};

pub fn count_newlines(text: &str) -> usize {
    let mut n = 0;
    let mut it = text.chars().peekable();
    while let Some(c) = it.next() {
        if is_newline(c) {
            if c == '\r' && it.peek() == Some(&'\n') {
                it.next();
            }
            n += 1;
        }
    }
    n
}

pub fn has_newline(text: &str) -> bool {
    text.chars().any(is_newline)
}

fn is_comment(k: K) -> bool {
    matches!(k, K::LineComment | K::BlockComment)
}

/// Strip White_Space at line ends (what post-processing may do) and normalise line ends to LF.
pub fn strip_line_ends(s: &str) -> String {
    let mut out = String::new();
    for (i, l) in s.split('\n').enumerate() {
        if i > 0 {
            out.push('\n');
        }
        out.push_str(l.trim_end());
    }
    out
}

// ---------------------------------------------------------------- skeleton (C01, C13)

fn is_code_list(k: K) -> bool {
    matches!(
        k,
        K::Array | K::Dict | K::Args | K::Params | K::Destructuring | K::ImportItems | K::Code | K::CodeBlock
            | K::ModuleImport | K::Parenthesized
    )
}

/// Is this node directly inside math (so that commas/semicolons of Args are significant)?
fn skel_into(node: &SyntaxNode, in_math: bool, sort_imports: bool, out: &mut String) {
    let k = node.kind();
    // grouping parentheses around a whole expression are layout
    if k == K::Parenthesized {
        if let Some(inner) = node.children().find(|c| {
            !matches!(c.kind(), K::LeftParen | K::RightParen | K::Space | K::LineComment | K::BlockComment)
        }) {
            skel_into(inner, in_math, sort_imports, out);
            return;
        }
    }
    // braces around a single non-statement expression are layout
    if k == K::CodeBlock {
        if let Some(code) = node.children().find(|c| c.kind() == K::Code) {
            let exprs: Vec<&SyntaxNode> = code.children().filter(|c| c.is::<ast::Expr>()).collect();
            if exprs.len() == 1 && !exprs[0].kind().is_stmt() {
                skel_into(exprs[0], false, sort_imports, out);
                return;
            }
        }
    }
    if node.children().len() == 0 && k == K::Markup {
        out.push_str("(Markup)");
        return;
    }
    if node.children().len() == 0 {
        out.push_str(&format!("{:?}", k));
        if !node.text().is_empty() {
            out.push(':');
            if k == K::Str {
                // literal content at line ends is C10's business (known finding F4)
                out.push_str(&format!("{:?}", strip_line_ends(node.text().as_str())));
            } else {
                out.push_str(&format!("{:?}", node.text().as_str()));
            }
        }
        return;
    }
    if k == K::Raw {
        if let Some(raw) = node.cast::<ast::Raw>() {
            out.push_str(&format!(
                "Raw(block={},lang={:?},lines={:?})",
                raw.block(),
                raw.lang().map(|l| l.get().to_string()),
                raw.lines().map(|l| l.get().trim_end().to_string()).collect::<Vec<_>>()
            ));
            return;
        }
    }
    out.push('(');
    out.push_str(&format!("{:?}", k));
    if k == K::Equation {
        if let Some(eq) = node.cast::<ast::Equation>() {
            out.push_str(if eq.block() { " block" } else { " inline" });
        }
    }
    let math_here = match k {
        K::Equation | K::Math | K::MathDelimited | K::MathAttach | K::MathFrac | K::MathRoot | K::MathPrimes => true,
        K::Markup | K::CodeBlock | K::ContentBlock | K::Code => false,
        _ => in_math,
    };
    if k == K::Markup {
        skel_markup(node, sort_imports, out);
    } else {
        let args_in_math = k == K::Args && in_math;
        let mut parts: Vec<String> = Vec::new();
        let mut after_hash = false;
        for c in node.children() {
            let ck = c.kind();
            let child_math = math_here && !after_hash;
            if !matches!(ck, K::Space) {
                after_hash = ck == K::Hash;
            }
            if matches!(ck, K::Space | K::Parbreak | K::LineComment | K::BlockComment | K::Shebang) {
                continue;
            }
            if is_code_list(k) && !args_in_math {
                if matches!(ck, K::Comma | K::Semicolon | K::LeftParen | K::RightParen | K::LeftBrace | K::RightBrace) {
                    continue;
                }
                if k == K::Dict && ck == K::Colon {
                    continue;
                }
            }
            let mut s = String::new();
            skel_into(c, child_math, sort_imports, &mut s);
            parts.push(s);
        }
        if k == K::ImportItems && sort_imports {
            parts.sort();
        }
        for p in parts {
            out.push(' ');
            out.push_str(&p);
        }
    }
    out.push(')');
}

fn skel_markup(node: &SyntaxNode, sort_imports: bool, out: &mut String) {
    // items: merged text runs, PAR markers, other children; whitespace at both edges dropped
    let mut items: Vec<String> = Vec::new();
    let mut cur: Option<String> = None;
    let mut pending_space = false;
    let flush = |cur: &mut Option<String>, items: &mut Vec<String>| {
        if let Some(t) = cur.take() {
            items.push(format!("T{:?}", t));
        }
    };
    for c in node.children() {
        match c.kind() {
            K::Space => pending_space = true,
            K::Parbreak => {
                flush(&mut cur, &mut items);
                pending_space = false;
                items.push("PAR".to_string());
            }
            K::LineComment | K::BlockComment | K::Shebang => {}
            K::Text => {
                let full = c.text().as_str();
                if full.starts_with(' ') {
                    pending_space = true;
                }
                let t = full.trim_matches(' ');
                if t.is_empty() {
                    pending_space = true;
                    continue;
                }
                let trailing = full.ends_with(' ');
                match cur.as_mut() {
                    Some(s) => {
                        if pending_space {
                            s.push(' ');
                        }
                        s.push_str(t);
                    }
                    None => {
                        if pending_space && !items.is_empty() {
                            items.push("SP".to_string());
                        }
                        cur = Some(t.to_string());
                    }
                }
                pending_space = trailing;
            }
            _ => {
                let had_text = cur.is_some();
                flush(&mut cur, &mut items);
                if pending_space && (had_text || !items.is_empty()) {
                    items.push("SP".to_string());
                }
                pending_space = false;
                let mut s = String::new();
                skel_into(c, false, sort_imports, &mut s);
                items.push(s);
            }
        }
    }
    flush(&mut cur, &mut items);
    // drop PAR/SP at the edges
    while matches!(items.last().map(|s| s.as_str()), Some("PAR") | Some("SP")) {
        items.pop();
    }
    let start = items.iter().position(|s| s != "PAR" && s != "SP").unwrap_or(items.len());
    // normalise: collapse whitespace inside merged text
    for it in items.into_iter().skip(start) {
        out.push(' ');
        if let Some(t) = it.strip_prefix('T') {
            let collapsed: Vec<&str> = t.split(' ').filter(|w| !w.is_empty()).collect();
            out.push('T');
            out.push_str(&collapsed.join(" "));
        } else {
            out.push_str(&it);
        }
    }
}

pub fn skeleton(root: &SyntaxNode, sort_imports: bool) -> String {
    let mut s = String::new();
    skel_into(root, false, sort_imports, &mut s);
    s
}

// ---------------------------------------------------------------- leaves

pub fn leaves<'a>(node: &'a SyntaxNode, out: &mut Vec<&'a SyntaxNode>) {
    if node.children().len() == 0 {
        out.push(node);
    } else {
        for c in node.children() {
            leaves(c, out);
        }
    }
}

fn is_punct(k: K) -> bool {
    matches!(
        k,
        K::LeftBrace | K::RightBrace | K::LeftBracket | K::RightBracket | K::LeftParen | K::RightParen | K::Comma
            | K::Semicolon | K::Colon | K::Star | K::Underscore | K::Dollar | K::Plus | K::Minus | K::Slash | K::Hat
            | K::Prime | K::Dot | K::Eq | K::EqEq | K::ExclEq | K::Lt | K::LtEq | K::Gt | K::GtEq | K::PlusEq
            | K::HyphEq | K::StarEq | K::SlashEq | K::Dots | K::Arrow | K::Root | K::Hash | K::HeadingMarker
            | K::ListMarker | K::EnumMarker | K::TermMarker | K::RawDelim | K::RawTrimmed | K::MathAlignPoint
            | K::Linebreak | K::End | K::Not | K::In | K::And | K::Or
    )
}

fn is_word(n: &SyntaxNode) -> bool {
    let k = n.kind();
    !(k.is_trivia() || is_punct(k)) && !n.text().trim().is_empty()
}

// ---------------------------------------------------------------- comments (C06)

fn norm_comment(text: &str) -> String {
    let t = text.replace("\r\n", "\n");
    t.split('\n').map(|l| l.trim()).collect::<Vec<_>>().join("\n").trim().to_string()
}

fn word_edge(n: &SyntaxNode, last: bool) -> String {
    let t = n.text().as_str();
    if n.kind() == K::Text {
        let mut it = t.split_whitespace();
        let w = if last { it.next_back() } else { it.next() };
        format!("Text:{}", w.unwrap_or(""))
    } else if n.kind() == K::Str {
        format!("Str:{}", strip_line_ends(t))
    } else {
        format!("{:?}:{}", n.kind(), t)
    }
}

/// (kind, normalised text, previous word, next word) per comment, in leaf order.
pub fn obs_comments(root: &SyntaxNode) -> Vec<(String, String, String, String)> {
    let mut ls = Vec::new();
    leaves(root, &mut ls);
    let mut res = Vec::new();
    for (i, l) in ls.iter().enumerate() {
        if is_comment(l.kind()) {
            let prev = ls[..i].iter().rev().find(|n| is_word(n)).map(|n| word_edge(n, true)).unwrap_or_default();
            let next = ls[i + 1..].iter().find(|n| is_word(n)).map(|n| word_edge(n, false)).unwrap_or_default();
            res.push((format!("{:?}", l.kind()), norm_comment(l.text()), prev, next));
        }
    }
    res
}

// ---------------------------------------------------------------- directive (C07)

fn is_prose_kind(k: K) -> bool {
    matches!(k, K::Text | K::Space | K::Parbreak | K::Linebreak | K::Escape | K::Shorthand | K::SmartQuote)
}

fn collect_off(node: &SyntaxNode, out: &mut Vec<Option<(String, String)>>) {
    let mut pending = false;
    for c in node.children() {
        let k = c.kind();
        if is_comment(k) {
            if c.text().contains("@typstyle off") {
                if pending {
                    // the earlier directive has no target of its own
                }
                pending = true;
                out.push(None);
            }
            continue;
        }
        if pending && !matches!(k, K::Space | K::Parbreak | K::Hash) {
            pending = false;
            if (c.is::<ast::Expr>() || matches!(k, K::Code | K::Math)) && !is_prose_kind(k) {
                // every directive that is still waiting protects this node
                let v = Some((format!("{:?}", k), strip_line_ends(&c.clone().into_text())));
                for slot in out.iter_mut().rev() {
                    if slot.is_none() {
                        *slot = v.clone();
                        break;
                    }
                }
            }
            continue;
        }
        collect_off(c, out);
    }
}

/// For every directive comment (in leaf order): kind and source text of the node it protects, if that
/// node is an expression, a code body or an equation body.
pub fn obs_off(root: &SyntaxNode) -> Vec<Option<(String, String)>> {
    let mut v = Vec::new();
    collect_off(root, &mut v);
    v
}

/// C07 oracle: every directive of the input that protects a node must protect the same text in the output.
pub fn off_preserved(a: &[Option<(String, String)>], b: &[Option<(String, String)>]) -> bool {
    a.len() == b.len() && a.iter().zip(b.iter()).all(|(x, y)| x.is_none() || x == y)
}

// ---------------------------------------------------------------- markup (C08)

fn ws_class(n: &SyntaxNode) -> String {
    match n.kind() {
        K::Parbreak => format!("<P{}>", count_newlines(n.text())),
        _ => {
            if has_newline(n.text()) {
                "<B>".to_string()
            } else {
                "<S>".to_string()
            }
        }
    }
}

fn obs_markup_node(node: &SyntaxNode, out: &mut Vec<Vec<String>>) {
    if node.kind() == K::Markup {
        let mut items: Vec<String> = Vec::new();
        for c in node.children() {
            match c.kind() {
                K::Space | K::Parbreak => items.push(ws_class(c)),
                K::Text => {
                    let full = c.text().as_str();
                    if full.starts_with(' ') {
                        items.push("<S>".to_string());
                    }
                    let t = full.trim_matches(' ');
                    if !t.is_empty() {
                        let words: Vec<&str> = t.split(' ').filter(|w| !w.is_empty()).collect();
                        items.push(format!("Text:{}", words.join(" ")));
                        if full.ends_with(' ') {
                            items.push("<S>".to_string());
                        }
                    }
                }
                K::Escape | K::Shorthand | K::SmartQuote | K::Link | K::Label | K::Linebreak => {
                    items.push(format!("{:?}:{}", c.kind(), c.text()))
                }
                K::Ref => {
                    let m = c.children().find(|x| x.kind() == K::RefMarker).map(|x| x.text().to_string());
                    items.push(format!("Ref:{}", m.unwrap_or_default()))
                }
                K::Heading | K::ListItem | K::EnumItem | K::TermItem => items.push("Block".to_string()),
                K::LineComment | K::BlockComment | K::Shebang => {}
                K::Hash | K::Semicolon | K::Strong | K::Emph | K::Raw | K::Equation => {
                    items.push(format!("{:?}", c.kind()))
                }
                _ => items.push("Code".to_string()),
            }
        }
        // a blank (no line break) directly after or before a block-level element is edge whitespace
        let mut filtered: Vec<String> = Vec::new();
        for (i, it) in items.iter().enumerate() {
            if it == "<S>" {
                let prev_block = i > 0 && items[i - 1] == "Block";
                let next_block = i + 1 < items.len() && items[i + 1] == "Block";
                if prev_block || next_block {
                    continue;
                }
            }
            filtered.push(it.clone());
        }
        // comments are transparent: merge the blanks around them into the strongest class
        let rank = |s: &str| if s == "<S>" { 1 } else if s == "<B>" { 2 } else { 3 };
        let mut items: Vec<String> = Vec::new();
        for it in filtered {
            if it.starts_with('<') {
                if let Some(last) = items.last_mut() {
                    if last.starts_with('<') {
                        if rank(&it) > rank(last) {
                            *last = it;
                        }
                        continue;
                    }
                }
            }
            items.push(it);
        }
        // merge Text <S> Text the way the lexer would after whitespace normalisation
        let mut merged: Vec<String> = Vec::new();
        for it in items {
            let n = merged.len();
            if it.starts_with("Text:") && n >= 2 && merged[n - 1] == "<S>" && merged[n - 2].starts_with("Text:") {
                merged.pop();
                let prev = merged.pop().unwrap();
                merged.push(format!("{} {}", prev, &it[5..]));
            } else {
                merged.push(it);
            }
        }
        while matches!(merged.last(), Some(s) if s.starts_with('<')) {
            merged.pop();
        }
        let start = merged.iter().position(|s| !s.starts_with('<')).unwrap_or(merged.len());
        out.push(merged.split_off(start));
    }
    for c in node.children() {
        obs_markup_node(c, out);
    }
}

pub fn obs_markup(root: &SyntaxNode) -> Vec<Vec<String>> {
    let mut v = Vec::new();
    obs_markup_node(root, &mut v);
    v
}

// ---------------------------------------------------------------- no rewrapping (C08)

fn count_newlines_in(node: &SyntaxNode) -> usize {
    let mut ls = Vec::new();
    leaves(node, &mut ls);
    ls.iter().map(|l| l.text().chars().filter(|c| is_newline(*c)).count()).sum()
}

fn mixed_breaks_node(node: &SyntaxNode, inherited: bool, out: &mut Vec<String>) {
    if node.kind() == K::Markup {
        let kids: Vec<&SyntaxNode> = node.children().collect();
        let mut start = 0;
        for i in 0..=kids.len() {
            let at_break = i == kids.len()
                || kids[i].kind() == K::Parbreak
                || (kids[i].kind() == K::Space && has_newline(kids[i].text()));
            if !at_break {
                continue;
            }
            let line = &kids[start..i];
            start = i + 1;
            // typstyle's own notion of a line that holds text (markup.rs `mixed_text`), inherited by what is nested in it
            let mixed = inherited || line.iter().any(|c| matches!(c.kind(), K::Text | K::Strong | K::Emph | K::Raw));
            for c in line {
                if mixed && !matches!(c.kind(), K::Text | K::Space | K::LineComment | K::BlockComment) {
                    out.push(format!("{:?}:{}", c.kind(), count_newlines_in(c)));
                }
                mixed_breaks_node(c, mixed, out);
            }
        }
    } else {
        let below_math = inherited || node.kind() == K::Math;
        for c in node.children() {
            mixed_breaks_node(c, below_math, out);
        }
    }
}

fn holds_table_call(n: &SyntaxNode) -> bool {
    if n.kind() == K::FuncCall {
        if let Some(callee) = n.children().next() {
            if callee.kind() == K::Ident && matches!(callee.text().as_str(), "table" | "grid") {
                return true;
            }
        }
    }
    n.children().any(holds_table_call)
}

fn table_in_mixed_node(node: &SyntaxNode, inherited: bool) -> bool {
    if node.kind() == K::Markup {
        let kids: Vec<&SyntaxNode> = node.children().collect();
        let mut start = 0;
        for i in 0..=kids.len() {
            let at_break = i == kids.len()
                || kids[i].kind() == K::Parbreak
                || (kids[i].kind() == K::Space && has_newline(kids[i].text()));
            if !at_break {
                continue;
            }
            let line = &kids[start..i];
            start = i + 1;
            let mixed = inherited || line.iter().any(|c| matches!(c.kind(), K::Text | K::Strong | K::Emph | K::Raw));
            for c in line {
                if (mixed && holds_table_call(c)) || table_in_mixed_node(c, mixed) {
                    return true;
                }
            }
        }
        false
    } else {
        let below_math = inherited || node.kind() == K::Math;
        if below_math && holds_table_call(node) {
            return true;
        }
        node.children().any(|c| table_in_mixed_node(c, below_math))
    }
}

/// F47 (`kfk`): a `table(..)`/`grid(..)` call on a markup line that holds text, or below a Math node. The grid layout
/// wraps a row that does not fit the width whether or not breaks are suppressed.
pub fn has_table_in_mixed_line(root: &SyntaxNode) -> bool {
    table_in_mixed_node(root, false)
}

/// For every markup line that holds text (and everything nested in it, and everything below a Math node): the
/// number of line breaks inside each of its pieces. Compared between the output at the configured width and the
/// output at an unbounded width: a difference is a line of prose that was rewrapped.
pub fn obs_mixed_breaks(root: &SyntaxNode) -> Vec<String> {
    let mut v = Vec::new();
    mixed_breaks_node(root, false, &mut v);
    v
}

// ---------------------------------------------------------------- math (C09)

fn edge_leaf(n: &SyntaxNode) -> String {
    let mut ls = Vec::new();
    leaves(n, &mut ls);
    let sig: Vec<&&SyntaxNode> = ls.iter().filter(|l| !l.kind().is_trivia()).collect();
    let f = sig.first().map(|l| l.text().to_string()).unwrap_or_default();
    let l = sig.last().map(|l| l.text().to_string()).unwrap_or_default();
    format!("{:?}[{}..{}]", n.kind(), f, l)
}

fn obs_math_node(node: &SyntaxNode, out: &mut Vec<Vec<String>>) {
    match node.kind() {
        K::Math | K::MathDelimited => {
            let mut items = Vec::new();
            let mut sep = 0; // 0 none, 1 space, 2 break
            let mut first = true;
            for c in node.children() {
                if c.kind() == K::Space {
                    sep = sep.max(if has_newline(c.text()) { 2 } else { 1 });
                } else if is_comment(c.kind()) {
                    continue;
                } else {
                    if !first {
                        items.push(["<>", "<S>", "<B>"][sep].to_string());
                    }
                    first = false;
                    sep = 0;
                    items.push(edge_leaf(c));
                }
            }
            out.push(items);
        }
        K::Equation => {
            let block = node.cast::<ast::Equation>().map(|e| e.block()).unwrap_or(false);
            out.push(vec![format!("Equation block={}", block)]);
        }
        _ => {}
    }
    for c in node.children() {
        obs_math_node(c, out);
    }
}

pub fn obs_math(root: &SyntaxNode) -> Vec<Vec<String>> {
    let mut v = Vec::new();
    obs_math_node(root, &mut v);
    v
}

// ---------------------------------------------------------------- literals (C10)

fn obs_lit_node(node: &SyntaxNode, out: &mut Vec<String>) {
    match node.kind() {
        K::Str | K::Int | K::Float | K::Numeric | K::Bool | K::Ident | K::MathIdent | K::Label | K::Link | K::Escape
        | K::Shorthand | K::RefMarker | K::MathText | K::MathShorthand => {
            out.push(format!("{:?}:{}", node.kind(), node.text()));
        }
        K::Raw => {
            if let Some(raw) = node.cast::<ast::Raw>() {
                let ticks = node
                    .children()
                    .find(|c| c.kind() == K::RawDelim)
                    .map(|d| d.text().len())
                    .unwrap_or(0);
                out.push(format!(
                    "Raw:block={} lang={:?} ticks={} lines=\n{}",
                    raw.block(),
                    raw.lang().map(|l| l.get().to_string()),
                    ticks,
                    raw.lines().map(|l| l.get().to_string()).collect::<Vec<_>>().join("\n")
                ));
            }
            return;
        }
        _ => {}
    }
    for c in node.children() {
        obs_lit_node(c, out);
    }
}

/// The tolerant form used next to known finding F4 (post-processing strips White_Space before a line feed inside
/// a literal): blanks are dropped only where a line feed follows them inside the literal. The last line of an
/// inline raw element and of every other literal is followed by the closing delimiter or nothing, so it is compared
/// exactly; every content line of a raw block is followed by a line feed.
pub fn tolerate_f4(lit: &str) -> String {
    let block = lit.starts_with("Raw:block=true");
    let mut out = String::new();
    let parts: Vec<&str> = lit.split('\n').collect();
    for (i, l) in parts.iter().enumerate() {
        if i > 0 {
            out.push('\n');
        }
        if i + 1 < parts.len() || block {
            out.push_str(l.trim_end());
        } else {
            out.push_str(l);
        }
    }
    out
}

pub fn obs_literals(root: &SyntaxNode) -> Vec<String> {
    let mut v = Vec::new();
    obs_lit_node(root, &mut v);
    v
}

// ---------------------------------------------------------------- imports (C19)

fn obs_import_node(node: &SyntaxNode, out: &mut Vec<Vec<String>>) {
    if node.kind() == K::ModuleImport {
        let mut items = Vec::new();
        for c in node.children() {
            if c.kind() == K::ImportItems {
                for it in c.children() {
                    if matches!(it.kind(), K::ImportItemPath | K::RenamedImportItem) {
                        // item text without trivia
                        let mut ls = Vec::new();
                        leaves(it, &mut ls);
                        let t: Vec<String> =
                            ls.iter().filter(|l| !l.kind().is_trivia()).map(|l| l.text().to_string()).collect();
                        items.push(t.join(" "));
                    }
                }
            }
        }
        out.push(items);
    }
    for c in node.children() {
        obs_import_node(c, out);
    }
}

fn has_comment_deep(n: &SyntaxNode) -> bool {
    is_comment(n.kind()) || n.children().any(has_comment_deep)
}

fn import_keep_node(node: &SyntaxNode, out: &mut Vec<bool>) {
    if node.kind() == K::ModuleImport {
        // must the items keep their order? ("imports that contain comments or bind the same name twice":
        // a comment anywhere in the import statement, or a name bound twice)
        let mut in_items = true;
        let mut comment = false;
        let mut names: Vec<String> = Vec::new();
        let mut dup = false;
        for c in node.children() {
            if matches!(c.kind(), K::LeftParen | K::ImportItems) {
                in_items = true;
            }
            if in_items && has_comment_deep(c) {
                comment = true;
            }
            if c.kind() == K::ImportItems {
                for it in c.children() {
                    if matches!(it.kind(), K::ImportItemPath | K::RenamedImportItem) {
                        let mut ls = Vec::new();
                        leaves(it, &mut ls);
                        if let Some(last) = ls.iter().rev().find(|l| l.kind() == K::Ident) {
                            let n = last.text().to_string();
                            if names.contains(&n) {
                                dup = true;
                            }
                            names.push(n);
                        }
                    }
                }
            }
        }
        out.push(comment || dup);
    }
    for c in node.children() {
        import_keep_node(c, out);
    }
}

/// Per import statement: must its items keep their order even with reordering on?
pub fn obs_import_keep(root: &SyntaxNode) -> Vec<bool> {
    let mut v = Vec::new();
    import_keep_node(root, &mut v);
    v
}

fn import_raw_node(node: &SyntaxNode, out: &mut Vec<Vec<String>>) {
    if node.kind() == K::ImportItems {
        out.push(
            node.children()
                .filter(|c| matches!(c.kind(), K::ImportItemPath | K::RenamedImportItem))
                .map(|c| c.clone().into_text().to_string())
                .collect(),
        );
    }
    for c in node.children() {
        import_raw_node(c, out);
    }
}

/// Per import item list: the raw source text of each item (the key typstyle sorts by).
pub fn obs_imports_raw(root: &SyntaxNode) -> Vec<Vec<String>> {
    let mut v = Vec::new();
    import_raw_node(root, &mut v);
    v
}

pub fn obs_imports(root: &SyntaxNode) -> Vec<Vec<String>> {
    let mut v = Vec::new();
    obs_import_node(root, &mut v);
    v
}

/// Source text with every ImportItems region (and its optional parentheses) blanked out.
pub fn without_import_items(root: &SyntaxNode) -> String {
    fn go(n: &SyntaxNode, in_import: bool, out: &mut String) {
        if n.kind() == K::ImportItems {
            out.push_str("<ITEMS>");
            return;
        }
        if in_import && matches!(n.kind(), K::LeftParen | K::RightParen | K::Space) {
            return;
        }
        if n.children().len() == 0 {
            out.push_str(n.text());
        } else {
            let imp = n.kind() == K::ModuleImport;
            for c in n.children() {
                go(c, imp, out);
            }
        }
    }
    let mut s = String::new();
    go(root, false, &mut s);
    s
}

pub fn count_nodes(n: &SyntaxNode) -> usize {
    1 + n.children().map(count_nodes).sum::<usize>()
}

pub fn depth(n: &SyntaxNode) -> usize {
    1 + n.children().map(depth).max().unwrap_or(0)
}
