//! Observations used by the search oracles.
