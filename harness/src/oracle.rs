//! One line of oracle verdicts per case: every property's executable observation compared between
//! the input tree and the re-parsed output tree. Testing, used for the search only.
use typst_syntax::{Source, SyntaxKind as K, SyntaxNode};

use crate::obs;
use crate::{config, format, hex, Outcome};

fn first_diff<T: PartialEq + std::fmt::Debug>(a: &[T], b: &[T]) -> String {
    let n = a.len().min(b.len());
    for i in 0..n {
        if a[i] != b[i] {
            return format!("#{}: {:?} != {:?}", i, a[i], b[i]);
        }
    }
    format!("len {} != {}; extra {:?}", a.len(), b.len(), if a.len() > b.len() { a.get(n) } else { b.get(n) })
}

fn str_diff(a: &str, b: &str) -> String {
    let ab = a.as_bytes();
    let bb = b.as_bytes();
    let n = ab.len().min(bb.len());
    let mut i = 0;
    while i < n && ab[i] == bb[i] {
        i += 1;
    }
    let lo = i.saturating_sub(60);
    let cut = |s: &str| {
        let mut lo2 = lo.min(s.len());
        while !s.is_char_boundary(lo2) {
            lo2 -= 1;
        }
        let mut hi = (i + 60).min(s.len());
        while !s.is_char_boundary(hi) {
            hi += 1;
        }
        s[lo2..hi].to_string()
    };
    format!("at {}: {:?} vs {:?}", i, cut(a), cut(b))
}

/// F4 class: a Str or Raw token of the input that has a White_Space character directly before a line feed.
fn has_f4_literal(n: &SyntaxNode) -> bool {
    if matches!(n.kind(), K::Str | K::Raw) {
        let t = n.clone().into_text();
        let cs: Vec<char> = t.chars().collect();
        for i in 1..cs.len() {
            if cs[i] == '\n' && cs[i - 1].is_whitespace() && cs[i - 1] != '\n' {
                return true;
            }
        }
        // a line of the literal consisting of blanks only, or CR before LF
        return false;
    }
    n.children().any(has_f4_literal)
}

/// F4, the sub-class where the tree changes too: among the White_Space characters directly before a LF
/// inside a Str/Raw token there is one that is itself a line end of raw text (VT, FF, NEL, LS, PS, or a CR that
/// is not part of CRLF): post-processing strips it and the literal loses a line.
fn has_f4n_literal(n: &SyntaxNode) -> bool {
    if matches!(n.kind(), K::Str | K::Raw) {
        let t = n.clone().into_text();
        let cs: Vec<char> = t.chars().collect();
        for i in 1..cs.len() {
            if cs[i] != '\n' {
                continue;
            }
            let mut j = i;
            while j > 0 && cs[j - 1].is_whitespace() && cs[j - 1] != '\n' {
                j -= 1;
                let c = cs[j];
                if matches!(c, '\x0b' | '\x0c' | '\u{85}' | '\u{2028}' | '\u{2029}') || (c == '\r' && j + 1 != i) {
                    return true;
                }
            }
        }
        return false;
    }
    n.children().any(has_f4n_literal)
}

/// Number of comments holding the directive, anywhere in the tree (also inside a protected node).
fn count_directives(n: &SyntaxNode) -> usize {
    let own = (matches!(n.kind(), K::LineComment | K::BlockComment) && n.text().contains("@typstyle off")) as usize;
    own + n.children().map(count_directives).sum::<usize>()
}

/// Exotic line ends (F6 class): any Typst newline other than LF / CRLF somewhere in the source.
fn has_exotic_newline(s: &str) -> bool {
    let cs: Vec<char> = s.chars().collect();
    for (i, c) in cs.iter().enumerate() {
        match c {
            '\x0b' | '\x0c' | '\u{85}' | '\u{2028}' | '\u{2029}' => return true,
            '\r' => {
                if cs.get(i + 1) != Some(&'\n') {
                    return true;
                }
            }
            _ => {}
        }
    }
    false
}

/// KF-A class: a comment somewhere inside an equation.
fn has_comment_in_equation(n: &SyntaxNode, in_eq: bool) -> bool {
    let in_eq = in_eq || n.kind() == K::Equation;
    if in_eq && matches!(n.kind(), K::LineComment | K::BlockComment) {
        return true;
    }
    n.children().any(|c| has_comment_in_equation(c, in_eq))
}

/// KF-B class: a block comment that is a child of a Markup node which holds a list/enum/term item,
/// or that lies inside such an item (comments there shift the columns Typst derives nesting from).
fn has_block_comment_near_item(n: &SyntaxNode, in_item: bool) -> bool {
    let is_item = |k: K| matches!(k, K::ListItem | K::EnumItem | K::TermItem);
    if n.kind() == K::Markup {
        let has_item = in_item || n.children().any(|c| is_item(c.kind()));
        if has_item && n.children().any(|c| c.kind() == K::BlockComment) {
            return true;
        }
    }
    if is_item(n.kind()) && n.children().any(|c| c.kind() == K::BlockComment) {
        return true;
    }
    let in_item = in_item || is_item(n.kind());
    n.children().any(|c| has_block_comment_near_item(c, in_item))
}

/// KF-C class: a term item whose term is empty (`/ :`).
fn has_empty_term(n: &SyntaxNode) -> bool {
    if n.kind() == K::TermItem {
        let mut seen_marker = false;
        for c in n.children() {
            match c.kind() {
                K::TermMarker => seen_marker = true,
                K::Markup if seen_marker => {
                    if c.children().len() == 0 {
                        return true;
                    }
                    break;
                }
                K::Colon => return true,
                _ => {}
            }
        }
    }
    n.children().any(has_empty_term)
}

/// F41 (`kfj`): a dictionary in which a string key written in parentheses (`("a"): 1`) equals another key of the
/// same dictionary. The parser checks literal keys for duplicates, not key expressions; the formatter drops the
/// redundant parentheses (pinned by the snapshot of unit/code/paren-in-key.typ), which turns the key into a literal
/// one and the duplicate into a syntax error. Comments inside the parentheses (which keep them) are not looked at:
/// the class over-approximates there.
fn has_paren_key_collision(n: &SyntaxNode) -> bool {
    use typst_syntax::ast;
    if n.kind() == K::Dict {
        let mut keys: Vec<(String, bool)> = Vec::new();
        for c in n.children() {
            match c.kind() {
                K::Named => {
                    if let Some(id) = c.children().find(|x| x.kind() == K::Ident) {
                        keys.push((id.text().to_string(), false));
                    }
                }
                K::Keyed => {
                    if let Some(mut key) = c.children().find(|x| x.cast::<ast::Expr>().is_some()) {
                        let mut parened = false;
                        while key.kind() == K::Parenthesized {
                            match key.children().find(|x| x.cast::<ast::Expr>().is_some()) {
                                Some(inner) => {
                                    key = inner;
                                    parened = true;
                                }
                                None => break,
                            }
                        }
                        if let Some(st) = key.cast::<ast::Str>() {
                            keys.push((st.get().to_string(), parened));
                        }
                    }
                }
                _ => {}
            }
        }
        for (i, (k, p)) in keys.iter().enumerate() {
            if keys.iter().enumerate().any(|(j, (k2, p2))| i != j && k == k2 && (*p || *p2)) {
                return true;
            }
        }
    }
    n.children().any(has_paren_key_collision)
}

/// Compare two texts under every property's observation (used to attribute a model/implementation
/// disagreement to the properties whose observation it changes).
pub fn obscmp(a: &str, b: &str) -> String {
    let sa = Source::detached(a.to_string());
    let sb = Source::detached(b.to_string());
    let (ra, rb) = (sa.root(), sb.root());
    let mut f: Vec<String> = Vec::new();
    f.push(format!("c04={}", (ra.erroneous() == rb.erroneous()) as u8));
    f.push(format!("c01={}", (obs::skeleton(ra, true) == obs::skeleton(rb, true)) as u8));
    f.push(format!("c06={}", (obs::obs_comments(ra) == obs::obs_comments(rb)) as u8));
    f.push(format!("c07={}", (obs::obs_off(ra) == obs::obs_off(rb)) as u8));
    f.push(format!(
        "c08={}",
        (obs::obs_markup(ra) == obs::obs_markup(rb) && obs::obs_mixed_breaks(ra) == obs::obs_mixed_breaks(rb)) as u8
    ));
    f.push(format!("c09={}", (obs::obs_math(ra) == obs::obs_math(rb)) as u8));
    f.push(format!("c10={}", (obs::obs_literals(ra) == obs::obs_literals(rb)) as u8));
    f.push(format!("c19={}", (obs::obs_imports(ra) == obs::obs_imports(rb)) as u8));
    let lines = |s: &str| s.split('\n').map(|l| l.trim_start().to_string()).collect::<Vec<_>>();
    f.push(format!("c12={}", (lines(a) == lines(b)) as u8));
    f.join("\t")
}

/// KF-E class (F18): the source holds a White_Space character that the markup lexer treats as text
/// (anything but space, tab and the newline characters), e.g. U+00A0, U+202F, U+3000.
fn has_exotic_trailing_blank(src: &str) -> bool {
    // Any such character can end up at a line end once the formatter breaks the line after it.
    src.chars()
        .any(|c| c.is_whitespace() && c != ' ' && c != '\t' && !typst_syntax::is_newline(c))
}

/// KF-F class (F19): a content block whose markup starts, on the bracket's own line, with a list/enum/term
/// item and spans several lines (continuation lines are nested by the indent unit, the first item is not).
fn has_item_on_bracket_line(n: &SyntaxNode) -> bool {
    if n.kind() == K::ContentBlock {
        if let Some(m) = n.children().find(|c| c.kind() == K::Markup) {
            let first = m.children().find(|c| c.kind() != K::Space).map(|c| c.kind());
            if matches!(first, Some(K::ListItem) | Some(K::EnumItem) | Some(K::TermItem))
                && m.clone().into_text().contains('\n')
            {
                return true;
            }
        }
    }
    n.children().any(has_item_on_bracket_line)
}

/// KF-G class (F20): a forced line break `\` followed only by blanks and then a token that starts with
/// ASCII punctuation: dropping the blanks turns `\ )` into the escape `\)`.
fn has_linebreak_before_punct(root: &SyntaxNode) -> bool {
    let mut ls = Vec::new();
    obs::leaves(root, &mut ls);
    for i in 0..ls.len() {
        if ls[i].kind() == K::Linebreak {
            let mut j = i + 1;
            while j < ls.len() && matches!(ls[j].kind(), K::Space | K::BlockComment | K::LineComment) {
                j += 1;
            }
            if j > i + 1 && j < ls.len() {
                if let Some(c) = ls[j].text().chars().next() {
                    if c.is_ascii_punctuation() {
                        return true;
                    }
                }
            }
        }
    }
    false
}

/// KF-I class (F26): a Text token that would be lexed as a heading / list / enum / term marker if it stood
/// at the start of a line (`=`, `-`, `+`, `/`, `1.` alone or followed by a blank); moving it to a line start
/// (a boundary blank turned into a line break) changes its meaning.
fn has_marker_like_text(n: &SyntaxNode) -> bool {
    if n.kind() == K::Text {
        let t = n.text().as_str();
        let head = t.split(' ').next().unwrap_or("");
        let is_marker = !head.is_empty()
            && (head.chars().all(|c| c == '=')
                || head == "-"
                || head == "+"
                || head == "/"
                || (head.ends_with('.') && head.len() > 1 && head[..head.len() - 1].chars().all(|c| c.is_ascii_digit())));
        if is_marker {
            return true;
        }
    }
    n.children().any(has_marker_like_text)
}

pub fn run(w: usize, t: usize, reorder: bool, src: &str) -> String {
    run_with(w, t, reorder, src, None)
}

/// As `run`, but the oracles judge `given` as if it were the formatter's output for `src`
/// (used to ask whether the MODEL's output satisfies a property where the implementation's does not).
pub fn run_with(w: usize, t: usize, reorder: bool, src: &str, given: Option<&str>) -> String {
    let mut f: Vec<String> = Vec::new();
    let source = Source::detached(src.to_string());
    let root = source.root();
    let in_err = root.erroneous();
    f.push(format!("in_err={}", in_err as u8));
    f.push(format!("nodes={}", obs::count_nodes(root)));
    f.push(format!("depth={}", obs::depth(root)));
    f.push(format!("exotic={}", has_exotic_newline(src) as u8));
    f.push(format!("f4={}", has_f4_literal(root) as u8));
    f.push(format!("f4n={}", has_f4n_literal(root) as u8));
    f.push(format!("kfa={}", has_comment_in_equation(root, false) as u8));
    f.push(format!("kfb={}", has_block_comment_near_item(root, false) as u8));
    f.push(format!("kfc={}", has_empty_term(root) as u8));
    f.push(format!("kfe={}", has_exotic_trailing_blank(src) as u8));
    f.push(format!("kff={}", has_item_on_bracket_line(root) as u8));
    f.push(format!("kfg={}", has_linebreak_before_punct(root) as u8));
    f.push(format!("kfi={}", has_marker_like_text(root) as u8));
    f.push(format!("kfj={}", has_paren_key_collision(root) as u8));
    f.push(format!("kfk={}", obs::has_table_in_mixed_line(root) as u8));
    let kfd = obs::obs_off(root).iter().any(|x| matches!(x, Some((_, t)) if t.contains('\n')));
    f.push(format!("kfd={}", kfd as u8));
    typstyle_core::verif_hooks::reset();
    let res = match given {
        Some(g) => Outcome::Ok(g.to_string()),
        None => format(config(w, t, reorder), src),
    };
    let cnt = typstyle_core::verif_hooks::get();
    f.push(format!("count={}", cnt));
    match res {
        Outcome::Err => {
            f.push("class=err".into());
            // C05: refusal iff erroneous; format_with_width returns the input unchanged
            let fw = typstyle_core::format_with_width(src, w);
            f.push(format!("c05={}", (in_err && fw == src) as u8));
        }
        Outcome::Panic(p) => {
            f.push("class=panic".into());
            f.push(format!("panic={}", hex(&p)));
            f.push("c05=0".into());
        }
        Outcome::Ok(out) => {
            f.push("class=ok".into());
            f.push(format!("out={}", hex(&out)));
            f.push(format!("c05={}", (!in_err) as u8));
            // C11
            let hyg = !out.is_empty()
                && out.ends_with('\n')
                && out.split('\n').all(|l| l.chars().last().map_or(true, |c| !c.is_whitespace()));
            f.push(format!("c11={}", hyg as u8));
            let o2 = Source::detached(out.clone());
            let oroot = o2.root();
            let out_err = oroot.erroneous();
            f.push(format!("c04={}", (!out_err) as u8));
            if true {
                let a = obs::skeleton(root, reorder);
                let b = obs::skeleton(oroot, reorder);
                f.push(format!("c01={}", (a == b) as u8));
                if a != b {
                    f.push(format!("c01d={}", hex(&str_diff(&a, &b))));
                }
                let mut a = obs::obs_comments(root);
                let mut b = obs::obs_comments(oroot);
                if reorder {
                    // sorting import items changes which word is next to a comment near them
                    for x in a.iter_mut().chain(b.iter_mut()) {
                        x.2.clear();
                        x.3.clear();
                    }
                }
                f.push(format!("c06={}", (a == b) as u8));
                if a != b {
                    f.push(format!("c06d={}", hex(&first_diff(&a, &b))));
                }
                let a = obs::obs_off(root);
                let b = obs::obs_off(oroot);
                // the property's own statement: the protected node's source text appears in the output
                // character for character (apart from blanks at line ends), in order
                let stripped_out = obs::strip_line_ends(&out);
                let mut pos = 0usize;
                let mut ok07 = true;
                for t in a.iter().flatten() {
                    match stripped_out[pos..].find(t.1.as_str()) {
                        Some(i) => pos += i + t.1.len(),
                        None => {
                            ok07 = false;
                            break;
                        }
                    }
                }
                // "the directive itself is kept": the output holds as many directive comments as the input
                // (counted over the whole tree: a directive may end up inside a node another one protects)
                let ok07 = ok07 && count_directives(root) == count_directives(oroot);
                f.push(format!("c07={}", ok07 as u8));
                f.push(format!("c07n={}", a.iter().filter(|x| x.is_some()).count()));
                if !ok07 {
                    f.push(format!("c07d={}", hex(&first_diff(&a, &b))));
                }
                let a = obs::obs_markup(root);
                let b = obs::obs_markup(oroot);
                // no rewrapping: inside a line that holds text, line breaks do not depend on the width
                let (mut wa, mut wb) = (Vec::new(), Vec::new());
                let wide_out = if given.is_none() { format(config(1_000_000, t, reorder), src) } else { Outcome::Err };
                if let Outcome::Ok(wide) = wide_out {
                    let ws = Source::detached(wide);
                    wa = obs::obs_mixed_breaks(oroot);
                    wb = obs::obs_mixed_breaks(ws.root());
                    // only the pieces that were on ONE source line are claimed to stay on one line
                    let wsrc = obs::obs_mixed_breaks(root);
                    if wsrc.len() == wa.len() && wsrc.len() == wb.len() {
                        for (i, x) in wsrc.iter().enumerate() {
                            if !x.ends_with(":0") {
                                wa[i] = String::new();
                                wb[i] = String::new();
                            }
                        }
                    } else {
                        wa.clear();
                        wb.clear();
                    }
                }
                f.push(format!("c08={}", (a == b && wa == wb) as u8));
                if a != b {
                    f.push(format!("c08d={}", hex(&first_diff(&a, &b))));
                } else if wa != wb {
                    f.push(format!("c08d={}", hex(&format!("rewrapped: {}", first_diff(&wa, &wb)))));
                }
                let a = obs::obs_math(root);
                let b = obs::obs_math(oroot);
                f.push(format!("c09={}", (a == b) as u8));
                if a != b {
                    f.push(format!("c09d={}", hex(&first_diff(&a, &b))));
                }
                let mut a = obs::obs_literals(root);
                let mut b = obs::obs_literals(oroot);
                if reorder {
                    a.sort();
                    b.sort();
                }
                f.push(format!("c10={}", (a == b) as u8));
                let mut aw: Vec<String> = a.iter().map(|x| obs::tolerate_f4(x)).collect();
                let mut bw: Vec<String> = b.iter().map(|x| obs::tolerate_f4(x)).collect();
                if reorder {
                    aw.sort();
                    bw.sort();
                }
                f.push(format!("c10w={}", (aw == bw) as u8));
                if a != b {
                    f.push(format!("c10d={}", hex(&first_diff(&a, &b))));
                }
                // C19 (relative to the reorder flag given)
                let a = obs::obs_imports(root);
                let b = obs::obs_imports(oroot);
                let ok19 = if !reorder {
                    a == b
                } else {
                    a.len() == b.len()
                        && a.iter().zip(b.iter()).all(|(x, y)| {
                            let mut xs = x.clone();
                            xs.sort();
                            let mut ys = y.clone();
                            ys.sort();
                            xs == ys
                        })
                };
                // with reordering on: nothing outside the import item lists differs from the output with it off,
                // and every import is either kept or sorted
                let mut ok19 = ok19;
                if reorder {
                    let keep = obs::obs_import_keep(root);
                    for (i, k) in keep.iter().enumerate() {
                        if *k && a.get(i) != b.get(i) {
                            ok19 = false;
                            f.push(format!("c19k={}", i));
                        }
                    }
                    // an import with neither comment nor duplicate comes out sorted: by the printed item texts, or
                    // (typstyle's key) by the raw source texts of the items, which differ when an item holds blanks
                    let raw = obs::obs_imports_raw(root);
                    if keep.len() == a.len() && raw.len() == a.len() && b.len() == a.len() {
                        for i in 0..a.len() {
                            if keep[i] || raw[i].len() != a[i].len() {
                                continue;
                            }
                            let mut printed_sorted = b[i].clone();
                            printed_sorted.sort();
                            let mut idx: Vec<usize> = (0..a[i].len()).collect();
                            idx.sort_by(|x, y| raw[i][*x].cmp(&raw[i][*y]));
                            let by_raw: Vec<String> = idx.iter().map(|j| a[i][*j].clone()).collect();
                            if b[i] != printed_sorted && b[i] != by_raw {
                                ok19 = false;
                                f.push(format!("c19s={}", i));
                            }
                        }
                    }
                    let off_out = if given.is_none() { format(config(w, t, false), src) } else { Outcome::Err };
                    if let Outcome::Ok(out_off) = off_out {
                        let off = Source::detached(out_off);
                        if obs::without_import_items(oroot) != obs::without_import_items(off.root()) {
                            ok19 = false;
                            f.push(format!("c19d={}", hex("output outside the import item lists differs between reorder on and off")));
                        }
                        let off_items = obs::obs_imports(off.root());
                        for (x, y) in off_items.iter().zip(b.iter()) {
                            let mut sorted = y.clone();
                            sorted.sort();
                            if x != y && *y != sorted {
                                // neither kept nor sorted (sorting is by source text; allow any order that is a
                                // permutation only when the normalised texts sort differently from the raw ones)
                                let mut xs = x.clone();
                                xs.sort();
                                if xs != sorted {
                                    ok19 = false;
                                }
                            }
                        }
                    }
                }
                f.push(format!("c19={}", ok19 as u8));
                f.push(format!("imports={}", a.iter().map(|x| x.len()).sum::<usize>()));
                if !ok19 {
                    f.push(format!("c19d={}", hex(&first_diff(&a, &b))));
                }
            }
        }
    }
    f.join("\t")
}


fn node_ranges(n: &SyntaxNode, off: usize, out: &mut Vec<(usize, usize, K)>) {
    let len = n.clone().into_text().len();
    out.push((off, off + len, n.kind()));
    let mut o = off;
    for c in n.children() {
        node_ranges(c, o, out);
        o += c.clone().into_text().len();
    }
}

/// C13: format_source_range on (src, a..b) with its oracle.
pub fn range(w: usize, t: usize, a: usize, b: usize, src: &str) -> String {
    let mut f: Vec<String> = Vec::new();
    let source = Source::detached(src.to_string());
    let root = source.root();
    f.push(format!("in_err={}", root.erroneous() as u8));
    f.push(format!("kfa={}", has_comment_in_equation(root, false) as u8));
    f.push(format!("kfb={}", has_block_comment_near_item(root, false) as u8));
    f.push(format!("kfc={}", has_empty_term(root) as u8));
    f.push(format!("kfe={}", has_exotic_trailing_blank(src) as u8));
    f.push(format!("kff={}", has_item_on_bracket_line(root) as u8));
    f.push(format!("kfg={}", has_linebreak_before_punct(root) as u8));
    f.push(format!("kfi={}", has_marker_like_text(root) as u8));
    f.push(format!("kfj={}", has_paren_key_collision(root) as u8));
    f.push(format!("kfk={}", obs::has_table_in_mixed_line(root) as u8));
    let kfd = obs::obs_off(root).iter().any(|x| matches!(x, Some((_, t)) if t.contains('\n')));
    f.push(format!("kfd={}", kfd as u8));
    let cfg = config(w, t, false);
    let res = crate::catch(std::panic::AssertUnwindSafe(|| {
        typstyle_core::Typstyle::new(cfg).format_source_range(&source, a..b)
    }));
    match res {
        Err(p) => {
            f.push("class=panic".into());
            f.push(format!("panic={}", hex(&p)));
            f.push("c13=0".into());
        }
        Ok(Err(_)) => {
            f.push("class=err".into());
            f.push("c13=1".into());
        }
        Ok(Ok((r, text))) => {
            f.push("class=ok".into());
            f.push(format!("rs={}", r.start));
            f.push(format!("re={}", r.end));
            f.push(format!("out={}", hex(&text)));
            let mut ok = true;
            let mut why = String::new();
            // the returned range lies on node boundaries
            let mut rs = Vec::new();
            node_ranges(root, 0, &mut rs);
            if !rs.iter().any(|(s, e, _)| *s == r.start && *e == r.end) {
                ok = false;
                why.push_str("range is not a node range; ");
            }
            // it covers the requested range after clamping and trimming blanks
            let len = src.len();
            let (ca, cb) = (a.min(len), b.min(len));
            if src.is_char_boundary(ca) && src.is_char_boundary(cb) && ca <= cb {
                let piece = &src[ca..cb];
                let te = ca + piece.trim_end().len();
                let ts = te - src[ca..te].trim_start().len();
                if !(r.start <= ts && te <= r.end) {
                    ok = false;
                    why.push_str("range does not cover the trimmed request; ");
                }
            }
            // splice and re-parse
            if r.end <= len && src.is_char_boundary(r.start) && src.is_char_boundary(r.end) {
                let spliced = format!("{}{}{}", &src[..r.start], text, &src[r.end..]);
                let s2 = Source::detached(spliced);
                if !root.erroneous() {
                    if s2.root().erroneous() {
                        ok = false;
                        why.push_str("spliced text has syntax errors; ");
                    } else if obs::skeleton(root, false) != obs::skeleton(s2.root(), false) {
                        ok = false;
                        why.push_str("spliced text has a different skeleton; ");
                    }
                    // C10 on the range path: the literals of the spliced text are those of the source
                    // (no post-processing here, so no F4 tolerance)
                    if !s2.root().erroneous() {
                        let la = obs::obs_literals(root);
                        let lb = obs::obs_literals(s2.root());
                        f.push(format!("c10r={}", (la == lb) as u8));
                        if la != lb {
                            f.push(format!("c10rd={}", hex(&first_diff(&la, &lb))));
                        }
                    }
                }
            } else {
                ok = false;
                why.push_str("range not sliceable; ");
            }
            f.push(format!("c13={}", ok as u8));
            if !ok {
                f.push(format!("c13d={}", hex(&why)));
            }
        }
    }
    f.join("\t")
}
