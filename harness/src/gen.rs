//! Case generators (all randomness from rng::Rng seeded by the caller).
//! G2: layout perturbation of well-formed sources — whitespace between tokens replaced, comments
//! inserted at token gaps, `@typstyle off` directives, CRLF / exotic line ends — kept only when the
//! result still parses without errors.
use std::io::{BufRead, Write};

use typst_syntax::{Source, SyntaxKind as K, SyntaxNode};

use crate::rng::Rng;
use crate::{hex, unhex};

fn leaf_spans(node: &SyntaxNode, off: &mut usize, out: &mut Vec<(usize, usize, K)>) {
    if node.children().len() == 0 {
        let l = node.text().len();
        out.push((*off, *off + l, node.kind()));
        *off += l;
    } else {
        for c in node.children() {
            leaf_spans(c, off, out);
        }
    }
}

const WS_PLAIN: &[&str] = &[" ", "  ", "\n", "\n\n", "\n  ", " \n", "\n\n\n", "\n    ", "", "\t", " \n \n ", "\n\n\n\n"];
const WS_EXOTIC: &[&str] = &["\r\n", "\r", "\u{2028}", "\u{0085}", "\x0b", "\x0c", "\u{2029}", "\r\n\r\n"];
const SPICE: &[&str] = &["\u{a0}", "\u{3000}", "\u{2003}", "\t", "\u{2028}", "\x0c", "\u{85}", "\x0b", "é", "中", "\u{200b}", "  "];
const COMMENTS: &[&str] = &[
    "/* a\n\u{3000}b */", "/* a\n\u{a0} b\n\tc */", "/* a\n  \u{2003}b\n   c */", "/*\u{3000}é\n\t* b\n */",
    "/* c */", "// c\n", "/* a\n   b */", "/* a\n * b\n */", " /* c */ ", " // c\n", "\n// c\n", "/**/", "//\n",
    "/* @typstyle off */", "// @typstyle off\n", "/* x */ /* y */", "// a\n// b\n", "\n/* c */\n", "/* a\n\n  b */",
];

/// Which mutation classes are allowed.
#[derive(Clone, Copy)]
pub struct Opts {
    pub exotic: bool,
    pub comments: bool,
    pub directives: bool,
}

pub fn perturb(src: &str, rng: &mut Rng, opts: Opts) -> Option<String> {
    let source = Source::detached(src.to_string());
    if source.root().erroneous() {
        return None;
    }
    let mut spans = Vec::new();
    let mut off = 0;
    leaf_spans(source.root(), &mut off, &mut spans);
    if spans.is_empty() {
        return None;
    }
    let nmut = 1 + rng.below(4);
    // collect edits (start, end, replacement), non-overlapping, applied right to left
    let mut edits: Vec<(usize, usize, String)> = Vec::new();
    for _ in 0..nmut {
        let i = rng.below(spans.len());
        let (s, e, k) = spans[i];
        let choice = rng.below(10);
        if opts.exotic
            && matches!(k, K::BlockComment | K::LineComment | K::Str | K::Text | K::Raw | K::RawTrimmed | K::MathText)
            && rng.chance(1, 2)
        {
            // spice: replace a blank inside the token by an unusual character, or insert one
            let text = &src[s..e];
            let blanks: Vec<usize> = text.char_indices().filter(|(_, c)| *c == ' ').map(|(i, _)| i).collect();
            if !blanks.is_empty() {
                let b = blanks[rng.below(blanks.len())];
                edits.push((s + b, s + b + 1, rng.pick(SPICE).to_string()));
                continue;
            }
        }
        if k == K::Space && choice < 5 {
            let pool = if opts.exotic && rng.chance(1, 4) { WS_EXOTIC } else { WS_PLAIN };
            let mut rep = rng.pick(pool).to_string();
            if rep.is_empty() {
                rep = " ".to_string();
            }
            edits.push((s, e, rep));
        } else if opts.comments && choice < 9 {
            // insert a comment at the start of leaf i (a token gap)
            let c = rng.pick(COMMENTS);
            if !opts.directives && c.contains("@typstyle") {
                continue;
            }
            edits.push((s, s, c.to_string()));
        } else if k == K::Comma {
            edits.push((s, e, String::new()));
        } else if matches!(k, K::RightParen) && rng.chance(1, 2) {
            edits.push((s, s, ",".to_string()));
        } else {
            let pool = if opts.exotic && rng.chance(1, 6) { WS_EXOTIC } else { WS_PLAIN };
            edits.push((s, s, rng.pick(pool).to_string()));
        }
    }
    edits.sort_by(|a, b| b.0.cmp(&a.0).then(b.1.cmp(&a.1)));
    let mut text = src.to_string();
    let mut last_start = usize::MAX;
    for (s, e, rep) in edits {
        if e > last_start {
            continue;
        }
        text.replace_range(s..e, &rep);
        last_start = s;
    }
    if opts.exotic && rng.chance(1, 40) {
        text = text.replace('\n', "\r\n");
    }
    if text == src {
        return None;
    }
    let s2 = Source::detached(text.clone());
    if s2.root().erroneous() {
        return None;
    }
    Some(text)
}

/// Take the smallest prefix of top-level markup children (or a random subtree's text) as a small case.
pub fn shrink_slices(src: &str, rng: &mut Rng, max_len: usize) -> Option<String> {
    let source = Source::detached(src.to_string());
    let root = source.root();
    // pick a random run of top-level children
    let kids: Vec<&SyntaxNode> = root.children().collect();
    if kids.is_empty() {
        return None;
    }
    let a = rng.below(kids.len());
    let mut text = String::new();
    for k in &kids[a..] {
        let t = (*k).clone().into_text();
        if !text.is_empty() && text.len() + t.len() > max_len {
            break;
        }
        text.push_str(&t);
        if text.len() > max_len / 2 && rng.chance(1, 3) {
            break;
        }
    }
    let s2 = Source::detached(text.clone());
    if text.trim().is_empty() || s2.root().erroneous() {
        return None;
    }
    Some(text)
}

pub fn dispatch(mode: &str, args: &[String], out: &mut impl Write) -> bool {
    match mode {
        // gen SEED N MAXLEN FLAGS  (stdin: base sources, hex per line) -> N perturbed sources (hex per line)
        "gen" => {
            let seed: u64 = args[0].parse().unwrap();
            let n: usize = args[1].parse().unwrap();
            let max_len: usize = args[2].parse().unwrap();
            let flags = args.get(3).map(|s| s.as_str()).unwrap_or("");
            let opts = Opts {
                exotic: flags.contains('x'),
                comments: !flags.contains('n'),
                directives: flags.contains('d'),
            };
            let stdin = std::io::stdin();
            let bases: Vec<String> = stdin.lock().lines().map(|l| unhex(l.unwrap().trim())).collect();
            let mut rng = Rng::new(seed);
            let mut produced = 0;
            let mut attempts = 0;
            while produced < n && attempts < n * 40 {
                attempts += 1;
                let base = &bases[rng.below(bases.len())];
                let small = if base.len() > max_len {
                    match shrink_slices(base, &mut rng, max_len) {
                        Some(s) => s,
                        None => continue,
                    }
                } else {
                    base.clone()
                };
                let mut cur = small;
                let rounds = 1 + rng.below(3);
                let mut ok = false;
                for _ in 0..rounds {
                    if let Some(t) = perturb(&cur, &mut rng, opts) {
                        cur = t;
                        ok = true;
                    }
                }
                if ok {
                    writeln!(out, "{}", hex(&cur)).unwrap();
                    produced += 1;
                }
            }
            true
        }
        _ => false,
    }
}
