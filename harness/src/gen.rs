//! Case generators (all randomness from rng::Rng seeded by the caller).
use std::io::Write;

pub fn dispatch(_mode: &str, _args: &[String], _out: &mut impl Write) -> bool {
    false
}
