//! Serialisers for syntax trees and for the `pretty` documents the implementation builds.
use pretty::Doc;
use typst_syntax::{Source, SyntaxNode};
use typstyle_core::{pretty::ArenaDoc, Config, Typstyle};

use crate::hex;

/// `( KIND child* )` for inner nodes, `KIND:HEX` for leaves (and for inner nodes without children).
pub fn tree(node: &SyntaxNode) -> String {
    let mut out = String::new();
    tree_into(node, &mut out);
    out
}

fn tree_into(node: &SyntaxNode, out: &mut String) {
    let k = node.kind() as u8;
    if node.children().len() == 0 {
        out.push_str(&format!("{}:{}", k, hex(node.text())));
    } else {
        out.push_str(&format!("( {}", k));
        for c in node.children() {
            out.push(' ');
            tree_into(c, out);
        }
        out.push_str(" )");
    }
}

type D<'a> = Doc<'a, pretty::RefDoc<'a, ()>, ()>;

pub fn doc<'a>(d: &D<'a>, out: &mut String) {
    match d {
        Doc::Nil => out.push('N'),
        Doc::Append(l, r) => {
            out.push_str("( A ");
            doc(l, out);
            out.push(' ');
            doc(r, out);
            out.push_str(" )");
        }
        Doc::Group(x) => {
            out.push_str("( G ");
            doc(x, out);
            out.push_str(" )");
        }
        Doc::FlatAlt(b, f) => {
            out.push_str("( F ");
            doc(b, out);
            out.push(' ');
            doc(f, out);
            out.push_str(" )");
        }
        Doc::Nest(k, x) => {
            out.push_str(&format!("( I {} ", k));
            doc(x, out);
            out.push_str(" )");
        }
        Doc::Hardline => out.push('H'),
        Doc::RenderLen(n, x) => {
            out.push_str(&format!("( R {} ", n));
            doc(x, out);
            out.push_str(" )");
        }
        Doc::OwnedText(s) => out.push_str(&format!("T:{}", hex(s))),
        Doc::BorrowedText(s) => out.push_str(&format!("T:{}", hex(s))),
        Doc::SmallText(s) => out.push_str(&format!("T:{}", hex(s))),
        Doc::Column(f) => {
            // align(): Column(|col| Nesting(|nest| self.nest(col - nest))); probing with 0/0 gives `self`.
            let inner = f(0);
            match &*inner {
                Doc::Nesting(g) => {
                    let x = g(0);
                    out.push_str("( L ");
                    doc(&x, out);
                    out.push_str(" )");
                }
                _ => out.push_str("?column"),
            }
        }
        Doc::Nesting(_) => out.push_str("?nesting"),
        Doc::Annotated(_, x) => doc(x, out),
        Doc::Union(_, _) => out.push_str("?union"),
        Doc::Fail => out.push_str("?fail"),
    }
}

pub fn doc_of_arena(d: &ArenaDoc<'_>) -> String {
    let mut out = String::new();
    doc(&d.1, &mut out);
    out
}

pub fn doc_of_source(cfg: Config, src: &str) -> String {
    let source = Source::detached(src);
    let mut dumped = String::new();
    let res = crate::catch(std::panic::AssertUnwindSafe(|| {
        let mut s = String::new();
        let r = Typstyle::new(cfg).format_source_inspect(&source, |d| {
            s = doc_of_arena(d);
        });
        (r.is_ok(), s)
    }));
    match res {
        Ok((true, s)) => dumped.push_str(&s),
        Ok((false, _)) => dumped.push_str("err"),
        Err(_) => dumped.push_str("panic"),
    }
    dumped
}

pub fn doc_and_render(cfg: Config, src: &str) -> String {
    let source = Source::detached(src);
    let width = cfg.max_width;
    let res = crate::catch(std::panic::AssertUnwindSafe(|| {
        let mut s = String::new();
        let r = Typstyle::new(cfg).format_source_inspect(&source, |d| {
            s = doc_of_arena(d);
            s.push('\t');
            s.push_str(&hex(&d.pretty(width).to_string()));
        });
        (r.is_ok(), s)
    }));
    match res {
        Ok((true, s)) => s,
        Ok((false, _)) => "err".to_string(),
        Err(_) => "panic".to_string(),
    }
}

pub fn attrs(node: &SyntaxNode, store: &typstyle_core::AttrStore, out: &mut String) {
    let v = (store.is_format_disabled(node) as u8)
        | ((store.has_comment(node) as u8) << 1)
        | ((store.is_multiline(node) as u8) << 2)
        | ((store.is_multiline_flavor(node) as u8) << 3);
    out.push(std::char::from_digit(v as u32, 16).unwrap());
    for c in node.children() {
        attrs(c, store, out);
    }
}
