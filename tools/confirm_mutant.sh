#!/bin/bash
# confirm_mutant.sh <worktree> <seeded-dir> — re-run, ourselves, what a sub-agent claimed about a seeded change:
# the patched tree builds and passes the existing suite, the demonstration fails with the patch and passes without it.
W=$1; S=$2
cd "$W" || exit 2
export CARGO_NET_OFFLINE=true CARGO_TARGET_DIR=$W/target
git checkout -q -- . 2>/dev/null; git apply "$S/patch.diff" || { echo "patch does not apply"; exit 2; }
cargo nextest run --workspace --no-fail-fast --offline -j 8 > "$S/confirm_tests.log" 2>&1
grep -E "Summary" "$S/confirm_tests.log" | tail -1 > "$S/confirm_summary.txt"
grep -E "^\s+FAIL" "$S/confirm_tests.log" | grep -v "e2e" | head -5 >> "$S/confirm_summary.txt"
if [ -f "$W/_mutant/demo.sh" ]; then
  (cd "$W" && bash "$W/_mutant/demo.sh" > "$S/confirm_demo_patched.log" 2>&1); echo "demo_with_patch_exit=$?" >> "$S/confirm_summary.txt"
  git checkout -q -- crates
  (cd "$W" && bash "$W/_mutant/demo.sh" > "$S/confirm_demo_clean.log" 2>&1); echo "demo_without_patch_exit=$?" >> "$S/confirm_summary.txt"
fi
git checkout -q -- . ; git status --short | grep -v "_mutant\|target" | head -3
cat "$S/confirm_summary.txt"
rm -f "$S/confirm_tests.log"
