"""genfallback.py — when a translator does not recognise the shape a definition is written in (it would emit the unbound
`Unrecognised`, or a `*_as_modelled := false` flag), the generated file takes that definition from coq/gen_baseline — the
value read from the unchanged tree — and records the name in gen/FALLBACKS.txt. The model then holds the last value the
translator could read, and it is the correspondence check (K5 for the converter tables, K8 for the CLI) that decides whether
the implementation still behaves like it: a behaviour-preserving rewrite stays quiet, a change of a table shows up as a
disagreement on an input that exercises it. The state audit (C17) has no such fallback: it IS the obligation."""
import os
import re


def apply(content, name, outdir):
    base_path = os.path.join(os.path.dirname(os.path.abspath(__file__)), "..", "coq", "gen_baseline", name)
    try:
        base = open(base_path).read().split("\n")
    except OSError:
        return content, []
    bdefs = {}
    for line in base:
        m = re.match(r"Definition (\w+)\b", line)
        if m:
            bdefs[m.group(1)] = line
    out, fell = [], []
    for line in content.split("\n"):
        m = re.match(r"Definition (\w+)\b", line)
        bad = "Unrecognised" in line or re.search(r"_as_modelled : bool := false\.", line)
        if m and bad and m.group(1) in bdefs and "Unrecognised" not in bdefs[m.group(1)]:
            out.append(bdefs[m.group(1)] + "  (* FALLBACK: shape not recognised in the current sources; value of the unchanged tree *)")
            fell.append(m.group(1))
        else:
            out.append(line)
    p = os.path.join(outdir, "FALLBACKS.txt")
    prev = []
    try:
        prev = [l for l in open(p).read().split("\n") if l and not l.startswith(name + ":")]
    except OSError:
        pass
    os.makedirs(outdir, exist_ok=True)
    open(p, "w").write("\n".join(prev + ["%s: %s" % (name, x) for x in fell]) + ("\n" if prev or fell else ""))
    return "\n".join(out), fell
