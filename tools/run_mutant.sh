#!/bin/bash
# run_mutant.sh <seeded-dir> <prop>... — apply a seeded change to /repo, run the given checks (quick), undo it.
# The evidence files are saved and restored: evidence committed to git must come from runs on the unchanged tree.
S=$1; shift
cd /repo && git status --short | grep -q . && { echo "/repo not clean"; exit 2; }
rm -rf /tmp/evidence.keep && cp -r /verif/evidence /tmp/evidence.keep
git -C /repo apply "$S/patch.diff" || { echo "patch does not apply"; exit 2; }
for p in "$@"; do
  echo "== $p under $(basename $S)"
  (cd /verif && timeout 2400 bin/vcheck $p --tier quick | grep -E "VIOLATION" | head -3)
done
git -C /repo checkout -- . ; git -C /repo status --short | head -3
rm -rf /verif/evidence && mv /tmp/evidence.keep /verif/evidence
# the harness binary was built from the changed tree: rebuild it from the restored sources
(cd /verif && python3 -c "
import sys; sys.path.insert(0,'/verif')
from vlib import build
build.build_harness()" >/dev/null 2>&1)
