#!/bin/bash
# run_mutant.sh <seeded-dir> <prop>... — apply a seeded change to /repo, run the given checks (quick), undo it.
S=$1; shift
cd /repo && git status --short | grep -q . && { echo "/repo not clean"; exit 2; }
git -C /repo apply "$S/patch.diff" || { echo "patch does not apply"; exit 2; }
for p in "$@"; do
  echo "== $p under $(basename $S)"
  (cd /verif && timeout 1500 bin/vcheck $p --tier quick | grep -E "VIOLATION|KNOWN" | grep -v KNOWN | head -3)
done
git -C /repo checkout -- . ; git -C /repo status --short | head -3
