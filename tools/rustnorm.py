"""rustnorm.py — light normalisation of Rust source text for the regex translators, so that edits which cannot change
behaviour do not change what the translators see: comments are removed (string- and char-literal aware) and, inside one
function body, a local that merely names a simple expression (`let inner = expr.to_untyped();`) is inlined at its uses.
Anything else a translator does not recognise is still emitted as `Unrecognised`."""
import re


def strip_comments(src):
    out = []
    i, n = 0, len(src)
    while i < n:
        c = src[i]
        if c == '"':                                   # string literal
            j = i + 1
            while j < n and src[j] != '"':
                j += 2 if src[j] == "\\" else 1
            out.append(src[i:j + 1])
            i = j + 1
        elif c == "'" and i + 2 < n and (src[i + 2] == "'" or (src[i + 1] == "\\" and "'" in src[i + 2:i + 6])):
            j = src.index("'", i + 2 if src[i + 1] != "\\" else i + 3)   # char literal (not a lifetime)
            out.append(src[i:j + 1])
            i = j + 1
        elif src.startswith("//", i):
            j = src.find("\n", i)
            i = n if j < 0 else j
        elif src.startswith("/*", i):
            depth, j = 1, i + 2
            while j < n and depth:
                if src.startswith("/*", j):
                    depth += 1
                    j += 2
                elif src.startswith("*/", j):
                    depth -= 1
                    j += 2
                else:
                    j += 1
            i = j
        else:
            out.append(c)
            i += 1
    return "".join(out)


SIMPLE = r"[A-Za-z_][\w]*(?:\s*(?:\.|::)\s*[A-Za-z_]\w*(?:\(\s*\))?)*"


def inline_aliases(body):
    """Inline `let NAME = SIMPLE;` (an identifier followed by field / nullary method / path steps) at the later uses."""
    pos = 0
    for _ in range(50):
        m = re.compile(r"\blet\s+([a-z_]\w*)\s*=\s*(%s)\s*;" % SIMPLE).search(body, pos)
        if not m:
            break
        name, expr = m.group(1), re.sub(r"\s+", "", m.group(2))
        rest = body[m.end():]
        if re.search(r"\b%s\s*=[^=]" % re.escape(name), rest) or re.search(r"&mut\s+%s\b" % re.escape(name), rest):
            pos = m.end()      # reassigned or mutably borrowed later: not a plain name for the expression
            continue
        rest = re.sub(r"(?<![\w\.])%s\b" % re.escape(name), expr, rest)
        body = body[:m.start()] + rest
        pos = m.start()
    return body


def read(path):
    return strip_comments(open(path).read())
