#!/usr/bin/env python3
"""gen_audit.py REPO OUTDIR — generate coq/gen/StateAudit.v from every non-test .rs file of typstyle-core
(the library whose purity C17 is about): global / interior-mutable state, unsafe, ambient inputs (environment,
time, randomness, threads' identity), and every use of a hash container that could expose its iteration order.
Each finding is a (file, line, text) triple; the Coq side proves the lists empty by reflexivity.
The verification hooks file (compiled only under --cfg typstyle_verif) is listed separately and allowed."""
import glob
import os
import re
import sys

STATE_PATTERNS = [
    (r"\bstatic\s+(mut\s+)?[A-Z_][A-Z0-9_]*\s*:", "static item"),
    (r"\bthread_local!", "thread_local"),
    (r"\blazy_static!", "lazy_static"),
    (r"\b(LazyLock|LazyCell|OnceLock|OnceCell|Lazy)\b", "lazy/once cell"),
    (r"\b(RefCell|Mutex|RwLock|UnsafeCell)\b", "interior mutability"),
    (r"\bAtomic(Bool|Usize|U64|U32|I64|I32|Isize|Ptr|U8|U16)\b", "atomic"),
    (r"\bunsafe\b", "unsafe"),
]
AMBIENT_PATTERNS = [
    (r"\bstd::env\b|\benv::(var|vars|args|current_dir)\b", "environment"),
    (r"\b(SystemTime|Instant)\b", "time"),
    (r"\brand::|\bthread_rng\b|\bRandomState\b|\bfastrand\b", "randomness"),
    (r"\bthread::current\b|\bThreadId\b", "thread identity"),
    (r"\bstd::fs\b|\bFile::(open|create)\b", "file system"),
]
HASH_TYPES = r"(HashMap|HashSet|FxHashMap|FxHashSet|IndexMap|IndexSet|BTreeMap|BTreeSet)"
ORDERED = {"BTreeMap", "BTreeSet", "IndexMap", "IndexSet"}
ALLOWED_METHODS = {"insert", "get", "get_mut", "entry", "contains", "contains_key", "len", "is_empty", "remove", "clear",
                   "or_default", "or_insert", "or_insert_with", "is_some_and", "reserve", "with_capacity", "default", "new"}
# `Cell` alone is matched separately to avoid matching table "cell" identifiers
CELL = re.compile(r"\bCell\s*(<|::)")


def strip_comments(text):
    out = []
    i = 0
    depth = 0
    in_str = False
    while i < len(text):
        if depth == 0 and not in_str and text.startswith("//", i):
            j = text.find("\n", i)
            j = len(text) if j < 0 else j
            i = j
            continue
        if not in_str and text.startswith("/*", i):
            depth += 1
            i += 2
            continue
        if depth > 0:
            if text.startswith("*/", i):
                depth -= 1
                i += 2
            else:
                if text[i] == "\n":
                    out.append("\n")
                i += 1
            continue
        c = text[i]
        if c == '"' and (i == 0 or text[i - 1] != "\\"):
            in_str = not in_str
        out.append(c)
        i += 1
    return "".join(out)


def cut_tests(text):
    """drop `#[cfg(test)] mod tests { ... }`"""
    m = re.search(r"#\[cfg\(test\)\]\s*mod\s+\w+\s*\{", text)
    if not m:
        return text
    return text[:m.start()] + "\n" * text[m.start():].count("\n")


def coq_str(s):
    return '"' + s.replace('"', "'").replace("\\", "/")[:100] + '"'


def main():
    repo, outdir = sys.argv[1], sys.argv[2]
    base = os.path.join(repo, "crates", "typstyle-core", "src")
    files = sorted(glob.glob(os.path.join(base, "**", "*.rs"), recursive=True))
    cells, ambient, hash_uses, hooks, local_cells = [], [], [], [], []
    for path in files:
        rel = os.path.relpath(path, repo)
        raw = open(path).read()
        text = cut_tests(strip_comments(raw))
        is_hook = os.path.basename(path) == "verif_hooks.rs"
        lines = text.split("\n")
        # hash containers declared in this file: field / let names with a hash type
        names = set()
        unordered = False
        for m in re.finditer(r"(\w+)\s*:\s*(?:&\s*(?:mut\s+)?)?(?:[\w:]*::)?" + HASH_TYPES + r"\b", text):
            if m.group(2) not in ORDERED:
                names.add(m.group(1))
        for m in re.finditer(r"let\s+(?:mut\s+)?(\w+)(?:\s*:\s*[^=;]+)?\s*=\s*(?:[\w:]*::)?" + HASH_TYPES + r"\s*(?:::<[^>]*>)?\s*::", text):
            if m.group(2) not in ORDERED:
                names.add(m.group(1))
        for ln, line in enumerate(lines, 1):
            for pat, what in STATE_PATTERNS:
                if re.search(pat, line):
                    (hooks if is_hook else cells).append((rel, ln, what + ": " + line.strip()))
            if CELL.search(line):
                if re.match(r"\s*let\s+(mut\s+)?\w+\s*=\s*[\w:]*Cell::new\(", line) and not is_hook:
                    # a stack-local cell: created and dropped within one call, cannot carry state between calls
                    local_cells.append((rel, ln, "local Cell: " + line.strip()))
                else:
                    (hooks if is_hook else cells).append((rel, ln, "Cell: " + line.strip()))
            for pat, what in AMBIENT_PATTERNS:
                if re.search(pat, line):
                    (hooks if is_hook else ambient).append((rel, ln, what + ": " + line.strip()))
            for v in names:
                for m in re.finditer(r"\b(?:self\.)?%s\b\s*\.\s*(\w+)\s*\(" % re.escape(v), line):
                    if m.group(1) not in ALLOWED_METHODS:
                        hash_uses.append((rel, ln, "%s.%s(): " % (v, m.group(1)) + line.strip()))
                if re.search(r"\bin\s+&?(?:mut\s+)?(?:self\.)?%s\b" % re.escape(v), line):
                    hash_uses.append((rel, ln, "for .. in %s: " % v + line.strip()))
                if re.search(r"\b(extend|from_iter|collect)\s*\(\s*&?(?:self\.)?%s\b" % re.escape(v), line):
                    hash_uses.append((rel, ln, "%s consumed: " % v + line.strip()))

    def coq_list(xs):
        if not xs:
            return "[]"
        return "[" + ";\n   ".join("(%s, %d, %s)" % (coq_str(f), ln, coq_str(t)) for (f, ln, t) in xs) + "]"

    # is the hooks file compiled only under the verification cfg?
    lib = open(os.path.join(base, "lib.rs")).read()
    hooks_guarded = bool(re.search(r"#\[cfg\(typstyle_verif\)\]\s*pub mod verif_hooks;", lib)) or not hooks

    out = ["(* GENERATED by tools/gen_audit.py from crates/typstyle-core/src/**/*.rs (tests and comments removed) — do not edit. *)",
           "From Coq Require Import String List NArith.", "Import ListNotations.", "Open Scope string_scope.", "",
           "Definition finding : Type := (string * N * string)%type.", "",
           "(* global or interior-mutable state, unsafe *)",
           "Definition state_cells : list finding :=\n  %s%%N." % coq_list(cells).replace(", %d, ", ", %d%%N, ") if False else
           "Definition state_cells : list finding :=\n  %s." % coq_list(cells),
           "(* ambient inputs: environment, time, randomness, thread identity, file system *)",
           "Definition ambient_inputs : list finding :=\n  %s." % coq_list(ambient),
           "(* uses of an unordered hash container other than insert/get/entry/contains/len: may expose iteration order *)",
           "Definition hash_order_uses : list finding :=\n  %s." % coq_list(hash_uses),
           "(* stack-local cells (let-bound inside a function): per-call, reported for information *)",
           "Definition local_cells : list finding :=\n  %s." % coq_list(local_cells),
           "(* state in the verification hooks (compiled only under --cfg typstyle_verif) *)",
           "Definition hook_cells : list finding :=\n  %s." % coq_list(hooks),
           "Definition hooks_are_cfg_guarded : bool := %s." % ("true" if hooks_guarded else "false"),
           "Definition files_audited : N := %d." % len(files)]
    content = "\n".join(out) + "\n"
    content = re.sub(r", (\d+), \"", r', \1%N, "', content)
    path = os.path.join(outdir, "StateAudit.v")
    os.makedirs(outdir, exist_ok=True)
    try:
        if open(path).read() == content:
            print("StateAudit.v unchanged")
            return 0
    except OSError:
        pass
    open(path, "w").write(content)
    print("StateAudit.v written")
    return 0


if __name__ == "__main__":
    sys.exit(main())
