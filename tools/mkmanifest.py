#!/usr/bin/env python3
"""Writes MANIFEST.json from the table below (kept in one place so it stays valid)."""
import json
import os

VERIF = os.path.dirname(os.path.dirname(os.path.abspath(__file__)))

BASELINE = ("cd /repo && cargo nextest run --workspace --no-fail-fast --test-threads 8 --offline "
            "|| cargo test --workspace --no-fail-fast --offline")

CHECKS = {
    "C11": dict(
        technique="Coq proof (closed, unbounded, by list induction) of strip_hygiene over a hand-written Gallina model of "
                  "strip_trailing_whitespace + differential correspondence (extracted OCaml and vm_compute vs the Rust function)",
        text="Closed theorem C11_output_hygiene: for EVERY string s, Post.strip s is non-empty, ends in LF and no line ends in a "
             "Unicode White_Space character; plus idempotence and decidability of the hygiene predicate. The model of "
             "utils::strip_trailing_whitespace (Rust str::lines, trim_end restated in Str.v) is tied to the code by K4 "
             "(thousands of random strings over all White_Space characters, CR/CRLF) and the pipeline's use of it by K5 "
             "(every accepted fixture output must be a fixed point of the model's strip and satisfy the extracted hygiene_b).",
        note="Trusted: Coq kernel; extraction (ExtrOcamlBasic); the restatement of str::lines/trim_end/char::is_whitespace; "
             "K4/K5 are differential tests (sampled). No axioms (Print Assumptions: closed).",
        design="§4 C11"),
}

NOT_APPLICABLE = {
    "C02": "Property is about Typst's evaluator/layout/rasteriser (other crates, ~100k lines): no executable Gallina model can express "
           "pixel-identical pages; the formatter-side content is decided by C01/C08/C09/C10 (DESIGN.md §4 C02).",
    "C03": "Idempotence needs the exact trivia of the re-parsed output, i.e. a Gallina model of the Typst parser, which is outside the model "
           "(DESIGN.md §3, §4 C03); parser-free mechanism lemmas (strip idempotence) are proved under C11.",
}

PENDING = "check not registered yet: model/theorem for this property is still being built in this round (DESIGN.md §10 order of work)"


def main():
    props = [json.loads(l)["id"] for l in open(os.path.join(VERIF, "properties.jsonl"))]
    checks = []
    for pid in props:
        if pid not in CHECKS:
            continue
        c = CHECKS[pid]
        checks.append({
            "property_id": pid,
            "quick_cmd": "bin/vcheck %s --tier quick" % pid,
            "thorough_cmd": "bin/vcheck %s --tier thorough" % pid,
            "evidence_file": "/verif/evidence/%s.json" % pid,
            "replay_cmd_template": "bin/vcheck %s --replay {path}" % pid,
            "engine": "coq-model+correspondence",
            "level_claimed": {"category": "proof", "text": c["text"], "design_ref": c["design"]},
            "level_note": c["note"],
            "technique": c["technique"],
        })
    na = []
    for pid in props:
        if pid in CHECKS:
            continue
        na.append({"property_id": pid, "reason": NOT_APPLICABLE.get(pid, PENDING)})
    m = {
        "version": 1,
        "setup_cmd": "bin/vcheck --setup",
        "hooks": {
            "guard": "typstyle_verif",
            "enable": "RUSTFLAGS=\"--cfg typstyle_verif\" (set by vlib/common.py for the harness build; CARGO_TARGET_DIR=/verif/build/target)",
            "baseline_off_cmd": BASELINE,
            "source_commits": ["5c43123"],
            "add_only": True,
        },
        "engines": [{
            "name": "coq-model+correspondence",
            "path": "/verif/coq, /verif/extract, /verif/harness, /verif/vlib",
            "serves_properties": sorted(CHECKS),
            "kind_free_text": "Rocq/Coq 8.16 theorems over a Gallina model of typstyle; model tied to /repo by generated .v files "
                              "and by differential correspondence (extracted OCaml + vm_compute vs the Rust implementation)",
        }],
        "checks": checks,
        "not_applicable": na,
        "notes": "See DESIGN.md. known_findings.json lists recorded findings and fixed defects.",
    }
    with open(os.path.join(VERIF, "MANIFEST.json"), "w") as f:
        json.dump(m, f, indent=1)


if __name__ == "__main__":
    main()
