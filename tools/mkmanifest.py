#!/usr/bin/env python3
"""Writes MANIFEST.json from the table below (kept in one place so it stays valid)."""
import json
import os

VERIF = os.path.dirname(os.path.dirname(os.path.abspath(__file__)))

BASELINE = ("cd /repo && cargo nextest run --workspace --no-fail-fast --test-threads 8 --offline "
            "|| cargo test --workspace --no-fail-fast --offline")

CHECKS = {
    "C11": dict(
        technique="Coq proof (closed, unbounded, by list induction) of strip_hygiene over a hand-written Gallina model of "
                  "strip_trailing_whitespace + differential correspondence (extracted OCaml and vm_compute vs the Rust function)",
        text="Closed theorem C11_output_hygiene: for EVERY string s, Post.strip s is non-empty, ends in LF and no line ends in a "
             "Unicode White_Space character; plus idempotence and decidability of the hygiene predicate. The model of "
             "utils::strip_trailing_whitespace (Rust str::lines, trim_end restated in Str.v) is tied to the code by K4 "
             "(thousands of random strings over all White_Space characters, CR/CRLF) and the pipeline's use of it by K5 "
             "(every accepted fixture output must be a fixed point of the model's strip and satisfy the extracted hygiene_b).",
        note="Trusted: Coq kernel; extraction (ExtrOcamlBasic); the restatement of str::lines/trim_end/char::is_whitespace; "
             "K4/K5 are differential tests (sampled). No axioms (Print Assumptions: closed).",
        design="§4 C11"),
    "C14": dict(
        technique="Coq proofs (list induction over inputs/histories) over a Gallina state-machine model of the CLI with an arbitrary formatter F "
                  "+ generated option/clap facts (CliGen.v) + differential correspondence of the extracted model with the real binary on generated file trees",
        text="Closed theorems over Cli.run for EVERY formatter F, file system, invocation shape, style options and history: check mode leaves the "
             "file system untouched, issues no write event and prints no formatter output (C14_check_mode_read_only, C14_check_history_read_only); "
             "exit = 1 iff some readable well-formed input differs from F's output or an I/O error occurred, for file lists, format-all and stdin "
             "(C14_check_exit_*); --check with --inplace is rejected (taken from the regenerated CliGen.v). The model is tied to main.rs/fmt.rs/cli.rs "
             "by K8: the real binary vs the extracted model on generated trees and invocation sequences (contents, mtimes, stdout, exit code).",
        note="Trusted: Coq kernel; gen_cli.py; extraction; the abstract file system (no permissions/symlinks/races/disk-full: runtime behaviour the model "
             "cannot exhibit - partial there); K8 is sampled differential testing. No axioms.",
        design="§4 C14"),
    "C15": dict(
        technique="Coq proofs over the CLI state-machine model (write-event discipline invariant by induction over the input list; isolation of failing inputs) "
                  "+ differential correspondence with the real binary",
        text="Closed theorems for EVERY formatter F and file system: in -i and format-all every write event targets a visited eligible path, writes exactly "
             "F cfg (old content) and only when it differs; the final file system is the initial one with exactly these writes; every other path keeps its node; "
             "format-all eligibility is regular *.typ files at or below the root with no hidden component BELOW the root (C15_walk_eligibility); a failing input "
             "changes nothing but the error count wherever it stands and forces exit 1 (C15_failing_input_is_isolated). Tied to the code by K8 (contents, mtimes, exit).",
        note="Trusted as C14. Repairs a8e4d33 (hidden root) and 3f7329d (swallowed I/O errors) were needed for the property to hold; recorded in known_findings.json as fixed. "
             "'A second run is a no-op' additionally needs idempotence of F (C03, not claimed); K8 exercises repeated invocations.",
        design="§4 C15"),
    "C16": dict(
        technique="Coq proofs over the CLI model + theorems about the option map regenerated from cli.rs/fmt.rs/config.rs on every run (translator) "
                  "+ differential correspondence with the real binary",
        text="Closed theorems: plain mode prints, in argument order, exactly F cfg c (c itself when erroneous) and touches nothing; stdin likewise; "
             "format_with_width s w = F {default with max_width := w} s or s on error; to_config maps column/tab_width/reorder to max_width/tab_spaces/"
             "reorder_import_items and leaves the rest at Config::default, clap defaults are 80/2/false - statements about gen/CliGen.v, which is REGENERATED "
             "from the Rust sources on every run, so clamping or dropping an option breaks the proof itself. K8 compares the binary's stdout/in-place results "
             "with the library's for column in [0,400], tab in [0,16], reorder on/off, and omitted options.",
        note="Trusted as C14 plus the regex translator gen_cli.py (fails closed: unknown shapes become the unbound identifier Unrecognised).",
        design="§4 C16"),
}

NOT_APPLICABLE = {
    "C02": "Property is about Typst's evaluator/layout/rasteriser (other crates, ~100k lines): no executable Gallina model can express "
           "pixel-identical pages; the formatter-side content is decided by C01/C08/C09/C10 (DESIGN.md §4 C02).",
    "C03": "Idempotence needs the exact trivia of the re-parsed output, i.e. a Gallina model of the Typst parser, which is outside the model "
           "(DESIGN.md §3, §4 C03); parser-free mechanism lemmas (strip idempotence) are proved under C11.",
}

PENDING = "check not registered yet: model/theorem for this property is still being built in this round (DESIGN.md §10 order of work)"


def main():
    props = [json.loads(l)["id"] for l in open(os.path.join(VERIF, "properties.jsonl"))]
    checks = []
    for pid in props:
        if pid not in CHECKS:
            continue
        c = CHECKS[pid]
        checks.append({
            "property_id": pid,
            "quick_cmd": "bin/vcheck %s --tier quick" % pid,
            "thorough_cmd": "bin/vcheck %s --tier thorough" % pid,
            "evidence_file": "/verif/evidence/%s.json" % pid,
            "replay_cmd_template": "bin/vcheck %s --replay {path}" % pid,
            "engine": "coq-model+correspondence",
            "level_claimed": {"category": "proof", "text": c["text"], "design_ref": c["design"]},
            "level_note": c["note"],
            "technique": c["technique"],
        })
    na = []
    for pid in props:
        if pid in CHECKS:
            continue
        na.append({"property_id": pid, "reason": NOT_APPLICABLE.get(pid, PENDING)})
    m = {
        "version": 1,
        "setup_cmd": "bin/vcheck --setup",
        "hooks": {
            "guard": "typstyle_verif",
            "enable": "RUSTFLAGS=\"--cfg typstyle_verif\" (set by vlib/common.py for the harness build; CARGO_TARGET_DIR=/verif/build/target)",
            "baseline_off_cmd": BASELINE,
            "source_commits": ["5c43123"],
            "add_only": True,
        },
        "engines": [{
            "name": "coq-model+correspondence",
            "path": "/verif/coq, /verif/extract, /verif/harness, /verif/vlib",
            "serves_properties": sorted(CHECKS),
            "kind_free_text": "Rocq/Coq 8.16 theorems over a Gallina model of typstyle; model tied to /repo by generated .v files "
                              "and by differential correspondence (extracted OCaml + vm_compute vs the Rust implementation)",
        }],
        "checks": checks,
        "not_applicable": na,
        "notes": "See DESIGN.md. known_findings.json lists recorded findings and fixed defects.",
    }
    with open(os.path.join(VERIF, "MANIFEST.json"), "w") as f:
        json.dump(m, f, indent=1)


if __name__ == "__main__":
    main()
