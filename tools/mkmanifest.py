#!/usr/bin/env python3
"""Writes MANIFEST.json from the table below (kept in one place so it stays valid)."""
import json
import os

VERIF = os.path.dirname(os.path.dirname(os.path.abspath(__file__)))

BASELINE = ("cd /repo && cargo nextest run --workspace --no-fail-fast --test-threads 8 --offline "
            "|| cargo test --workspace --no-fail-fast --offline")

CHECKS = {
    'C12': dict(technique="Coq proof (lock-step induction over the renderer's stack machine) that the wide renderer on an instance of a symbolic document emits the instances of the symbolic renderer's events + Coq proof (binary logical relation over all stylists and converters) that the converter is parametric in tab_spaces + per-case certified checks (extracted sym_of / inst / render_wide) that the implementation's documents for the units 1,2,3,4,8 are instances of one symbolic document and that its rendering equals the wide renderer + line-by-line oracle",
        text="Proof with a known finding. Proved for every symbolic document D and every unit u (C12_symbolic_indentation): rendering inst u D when nothing wraps emits the same text atoms whatever the unit and, after every layout line break, a*u+b blanks with (a, b) independent of u; b = 0 gives a whole multiple of the unit (C12_layout_line_is_multiple), b <> 0 arises only under Align (comment continuation lines), and lines inside a text atom are not layout lines: the property's exemptions. sym_of is proved sound (C12_sym_of_sound). Theorem B: when width >= room d (all text widths plus all positive nests) the real renderer equals the wide renderer (C12_wide_enough) and lays inst u D out as the instance of the one symbolic layout (C12_real_renderer_scales); the extracted room is evaluated on every dumped document. Theorem C (TabRel.v, TabProofs.v, TabParam.v): for any two non-zero units the converter's documents for one tree are instances of ONE symbolic document, with equal conversion counts (C12_converter_parametric_in_unit: a relation rdoc between documents that differ only in unit nests is preserved by every builder, stylist operation and converter, established for build c1 t / build c2 t by induction on the tree); with A and B, C12_indentation_scales is the property over the model for every tree, configuration and pair of non-zero units. Tie, on every case: K2-scale - the documents the implementation builds for tab_spaces 1,2,3,4,8 are inst u of ONE symbolic document computed from the units 2 and 3 (so a literal 2, a forgotten nest or tab_spaces in a width computation breaks the obligation); K3-wide - the implementation's rendering at width 10^6 equals the model's wide renderer on its document. Oracle: the raw outputs of the five units, line by line against the symbolic line table; a line whose indentation comes from nests alone must have no constant part. Known finding F7 (stray blank after a line break inside a flow), by class.",
        note='Trusted: Coq kernel (no axioms); extraction; the Doc dump through format_source_inspect (public pretty::Doc enum); that the converter is parametric in the unit is CHECKED per case, not proved over the converter model.',
        design='§4 C12'),
    'C13': dict(technique='Coq proofs (list/byte-offset arithmetic, structural induction on the tree) over a Gallina model of partial.rs and the utils.rs helpers, reusing the converter model + differential correspondence K6 (class, returned range, bytes) + splice oracle',
        text='Partial proof. Proved for every tree/text: for any request a <= b whose ends are on char boundaries or past the end, clamping and trimming never fail and yield a sub-range on char boundaries holding exactly the trimmed text (C13_range_arithmetic_total); the node found covers the range, is a Markup/Expr/Pattern node of the tree on node boundaries (C13_cover_sound); the indentation lookup at a node start never fails (C13_indent_lookup_total); a successful call returns the byte range of a non-erroneous covering node containing the trimmed request (C13_result_is_covering_node); no/erroneous covering node is refused (C13_refuses_erroneous); whenever the node to format conforms to the schema clause swfc (evaluated by the check in every case) every such request is answered with text or the refusal: no Panic site of the arithmetic, the lookup or the converters is reachable and the fuel of the renderer suffices (C13_range_total). NOT proved: the spliced text re-parses to an equivalent tree (parser; oracle on every case). Tie K6: format_source_range == Partial.format_range on thousands of (source, range) pairs incl. ranges past the end and erroneous sources. Repairs needed for the property to hold: 246cff8 (clamp before trim), b96d67a (indent at node start), f233c9f (first-line indentation), b3412af (item body nesting), 6f5c883 (breaks suppressed below Math), ffcf2d9 (a Parbreak is never the node to format), 92f58b0 (embedded literal keeps its parentheses).',
        note='Trusted: Coq kernel (no axioms); Rust str slicing semantics restated as split_at_byte/slice; LinkedNode offsets restated as prefix sums (A3, checked by K6).',
        design='§4 C13'),
    'C17': dict(technique="Coq proof of audit obligations over gen/StateAudit.v, REGENERATED from typstyle-core's sources on every run (translator), and of history/order independence of the library state machine over the audited state + K9 schedule testing (16 threads, shuffled orders, separate processes)",
        text="Partial (structural theorem + audit + schedules). C17_audit_clean: typstyle-core has no static/thread_local/lazy/once cell, no RefCell/Mutex/atomic field, no unsafe, no environment/time/randomness/thread-identity/file access, and uses its hash containers only through insert/get/entry/contains (never an order-exposing method); the only state is in the cfg-guarded verification hooks - the lists are regenerated from the Rust sources on every run and proved empty by reflexivity, so adding a cache, a counter or an iteration over a HashMap breaks the proof obligation itself. C17_history_independent / C17_order_independent: with that state (unit), every call in every history and interleaving returns format_source's value. K9: the same (text, config) set formatted sequentially, from 16 threads in shuffled orders and in three processes must be byte-identical (and equals the model, K5).",
        note="Trusted: Coq kernel; the regex translator gen_audit.py (reports by shape; state hidden behind a macro or inside a dependency is outside its reach); thread scheduling, allocator and dependencies' globals are runtime: K9 is testing.",
        design='§4 C17'),
    'C18': dict(technique="Coq proof, by induction over the tree and one cost lemma per converter, that the converter model's conversion counter (the formatter's own counter: the monad state) advances by at most 3 per syntax node for every input, request, configuration and nesting + K7: exact equality of the implementation's hooked counter with the model's on every case + the theorem's schema hypothesis evaluated on every parsed tree + growth oracle on nested families",
        text="Proof. The model's monad carries the conversion counter, bumped at exactly the hooked entry points (convert_expr, convert_embedded_expr for a parenthesized child of markup/math, convert_pattern, convert_markup_impl, convert_math), so cost and converter are one definition. Proved (CostBound.v; Properties/C18.v): C18_conversions_linear — for every width oracle, configuration, tree satisfying the schema clause wfc, and request, call (build t) r advances the counter by at most 3 * tree_size t, whatever the nesting depth; C18_root for whole documents; the cost calculus (C18_costs_bind, C18_costs_fold) and 'each stylist hands every child to the item converter at most once' (C18_flow/list/plain_once_per_child). wfc (MathDelimited starts/ends with an expression, Binary has no operator before its first operand, Args has its left parenthesis first) is the part of the parser's schema the bound depends on; the extracted wfc is evaluated on every tree the parser hands over and the model's tree_size is compared with the implementation's node count. Tie K7: the implementation's counter must EQUAL the model's on every case (a 'convert, fall back and convert again' edit shows on the first nested input). Oracle: conversions per syntax node (<= 3; measured max 1.0) over all streams and nested families at doubling depths. Rendering cost (the pretty crate) is outside the statement.",
        note='Trusted: Coq kernel; the five cfg-guarded bump hooks (MANIFEST.hooks); rendering cost (pretty) is outside the statement as in the property.',
        design='§4 C18'),
    'C19': dict(technique="Coq proofs (Permutation/StronglySorted of the model's stable insertion sort; gate lemmas) over the converter model's import_items_order + K5 with the flag on and off + item-sequence oracle",
        text="Proof of the ordering core. import_items_order is the order in which convert_import_items hands the item nodes to the list stylist; the flag occurs nowhere else in the converter model. Proved: off keeps source order (C19_off_keeps_source_order); on yields a permutation (C19_on_is_permutation) that is either the source order or sorted by source text (C19_on_sorted_or_kept); a comment anywhere in the item list, also inside an item, or a name bound twice keeps the order (C19_comment_keeps_order, C19_duplicate_keeps_order); the option defaults to off in Config and in the CLI (C19_default_off, over the regenerated CliGen.v). 'Nothing else differs' is decided by K5 with the flag on and off and by the oracle (item sequences input vs re-parsed output; text outside the item lists equal between on and off). Repair needed: 269647e (comment inside a renamed item).",
        note="Trusted: Coq kernel; Rust's sort_by_key is stable (any stable sort gives the same list as the model's insertion sort); string order = scalar-value order = UTF-8 byte order.",
        design='§4 C19'),
    'C01': dict(technique="Coq proofs (structural induction over documents / child lists; renderer refinement for every width) over a hand-written Gallina model of the whole converter pipeline (attr passes, ~60 converters, four stylists, pretty's renderer, post-processing) + generated tables (gen/Tables.v, gen/Kind.v) + differential correspondence of the extracted model with the implementation (document, bytes, counter) on every case + property oracle search",
        text="Partial proof. Proved for all trees/configs/widths over the model: every accepted output is the stripped rendering of the converter's document and the emitted atoms are atoms of that document in document order, a group being flat or broken as a whole (C01_output_atoms_partial, via the renderer refinement theorems render_atoms/render_lay); optional delimiters appear exactly when the body is broken and a flat body stays on one line (C01_optional_paren_sound); markup is re-emitted as its source lines in order (C01_markup_source_lines); the layout stylists conserve what they are handed: the atoms of a flow-based, list-based or plain-list converter's document, whatever flat_alt branch is taken, are the atoms of what was pushed for its children in child order (keyword text, comment document, hash, producer/checker result), with only blanks, line breaks and the list style's own separator and delimiters in between (C01_flow_stylist_conserves, C01_list_stylist_conserves through comment attaching/detaching and the three print loops, C01_plain_stylist_conserves), and the chain printer conserves bodies, operators and comments (C01_chain_printer_conserves, with the side condition shown of every built chain by C01_chain_builder_attaches_after_a_body). NOT proved: that each converter's producer hands every non-trivia child to its stylist, and the re-parsed half (C01_full is stated over an abstract parser). The model (total by construction, byte-exact against the implementation) is tied to the code by K2/K5/K7 on every case, and the skeleton oracle (re-parse with typst_syntax, compare trees modulo layout) searches for a failing input. Known findings by class: comments inside equations (F10/F13), block comments sharing a line with list items (F15), empty term (F16), multi-line '@typstyle off' regions (F17), exotic trailing blanks (F18).",
        note="Trusted: Coq kernel (closed under the global context, no axioms); extraction (ExtrOcamlBasic only) and the OCaml driver; translators gen_kind/gen_tables/gen_cli; the Rust harness with its oracles. Modelled, not verified: typst-syntax (parser: its trees are the model's input), the `pretty` renderer and unicode-width (restated / harvested, compared on every case). K5 and the oracles are sampled (differential testing).",
        design='§4 C01'),
    'C04': dict(technique="Coq proofs (structural induction over documents / child lists; renderer refinement for every width) over a hand-written Gallina model of the whole converter pipeline (attr passes, ~60 converters, four stylists, pretty's renderer, post-processing) + generated tables (gen/Tables.v, gen/Kind.v) + differential correspondence of the extracted model with the implementation (document, bytes, counter) on every case + property oracle search",
        text='Partial proof. Proved over the renderer model for every document and width: the renderer refines the mode-aware layout relation (C04_render_refines_layouts), a group laid out flat never contains a line break (C04_flat_group_one_line), optional parentheses/braces appear exactly when the body is broken (C04_optional_paren_sound), a line comment is one atom with its exact text (C04_line_comment_atom). NOT proved: that the output re-parses (needs the parser). Tie: K5 (model bytes == implementation bytes) on every case; oracle: typst_syntax reports no error in the output, at widths down to 0. Known finding class: comments inside equations (F10).',
        note="Trusted: Coq kernel (closed under the global context, no axioms); extraction (ExtrOcamlBasic only) and the OCaml driver; translators gen_kind/gen_tables/gen_cli; the Rust harness with its oracles. Modelled, not verified: typst-syntax (parser: its trees are the model's input), the `pretty` renderer and unicode-width (restated / harvested, compared on every case). K5 and the oracles are sampled (differential testing).",
        design='§4 C04'),
    'C05': dict(technique="Coq proofs (structural induction over documents / child lists; renderer refinement for every width) over a hand-written Gallina model of the whole converter pipeline (attr passes, ~60 converters, four stylists, pretty's renderer, post-processing) + generated tables (gen/Tables.v, gen/Kind.v) + differential correspondence of the extracted model with the implementation (document, bytes, counter) on every case + property oracle search",
        text="Proof over the model, under a schema clause checked on every parsed tree. C05_total: for every width oracle, configuration and tree, an erroneous tree is refused, and a well-formed Markup tree satisfying swfc yields text — no Panic site of the converter (math slicing, chain printer, casts, missing Args, comment unwrap/unreachable) is reachable and the renderer's fuel suffices (SafeBound.v: one totality lemma per converter, induction over the tree; Total.v). C05_no_panic_site: the same for every admissible request on any sub-bundle, with the counter bound. swfc (a MathDelimited starts and ends with an expression child, a Binary holds an operator token and none before its first operand, a FuncCall has an Args child whose left parenthesis comes first, a FieldAccess has a Dot) is the part of the parser's output schema the converters unwrap; C05_schema_survives_annotation shows the attribute passes keep it; the extracted swfc is evaluated on every tree the parser hands over. Also: refusal iff erroneous (C05_refuses_iff_erroneous), format_with_width returns the input on refusal (C05_convenience_returns_input), renderer termination for every document and width (C05_renderer_terminates, C05_never_out_of_fuel). Native stack depth and allocation are runtime behaviour the model cannot exhibit (nested families run to depth 16/64 as a test). Tie: accepted/refused/panicked class equality between model and implementation on every case incl. damaged sources and nested families; oracle: catch_unwind + refusal iff erroneous + format_with_width identity.",
        note="Trusted: Coq kernel (closed under the global context, no axioms); extraction (ExtrOcamlBasic only) and the OCaml driver; translators gen_kind/gen_tables/gen_cli; the Rust harness with its oracles. Modelled, not verified: typst-syntax (parser: its trees are the model's input), the `pretty` renderer and unicode-width (restated / harvested, compared on every case). K5 and the oracles are sampled (differential testing).",
        design='§4 C05'),
    'C06': dict(technique="Coq proofs (structural induction over documents / child lists; renderer refinement for every width) over a hand-written Gallina model of the whole converter pipeline (attr passes, ~60 converters, four stylists, pretty's renderer, post-processing) + generated tables (gen/Tables.v, gen/Kind.v) + differential correspondence of the extracted model with the implementation (document, bytes, counter) on every case + property oracle search",
        text="Partial proof. Proved: the comment converter never fails on a comment node (C06_comment_total); a line comment is one atom with its exact text (C06_line_comment_text); every layout of a block comment is the comment's own lines in order, each being the source line minus leading White_Space only (C06_block_comment_text, incl. the min-indentation argument of align_multiline); in markup a comment contributes in place among its siblings (C06_markup_comment_in_place). NOT proved: order/neighbourhood of comments across all converters. Tie: K5 on every case; oracle: comment tokens with neighbouring words, input vs re-parsed output. Known finding class: comments inside equations (F10).",
        note="Trusted: Coq kernel (closed under the global context, no axioms); extraction (ExtrOcamlBasic only) and the OCaml driver; translators gen_kind/gen_tables/gen_cli; the Rust harness with its oracles. Modelled, not verified: typst-syntax (parser: its trees are the model's input), the `pretty` renderer and unicode-width (restated / harvested, compared on every case). K5 and the oracles are sampled (differential testing).",
        design='§4 C06'),
    'C07': dict(technique="Coq proofs (structural induction over documents / child lists; renderer refinement for every width) over a hand-written Gallina model of the whole converter pipeline (attr passes, ~60 converters, four stylists, pretty's renderer, post-processing) + generated tables (gen/Tables.v, gen/Kind.v) + differential correspondence of the extracted model with the implementation (document, bytes, counter) on every case + property oracle search",
        text="Partial proof. Proved: the attribute pass marks the directive comment and the next sibling that is not a comment/Space/Hash, as a whole and without descending (C07_directive_marks_next_sibling, C07_no_format_is_children_pass, C07_mark_keeps_text); each of the four conversion entry points emits a marked node as ONE atom holding its source text (C07_expr_verbatim, C07_pattern_verbatim, C07_math_verbatim, C07_code_body_verbatim), which the renderer emits verbatim at every width. NOT proved: that every expression child reaches one of these entry points. Tie: K5 on every case (G2 inserts directives at random token gaps); oracle: the protected node's source text occurs in the output, line-end blanks apart.",
        note="Trusted: Coq kernel (closed under the global context, no axioms); extraction (ExtrOcamlBasic only) and the OCaml driver; translators gen_kind/gen_tables/gen_cli; the Rust harness with its oracles. Modelled, not verified: typst-syntax (parser: its trees are the model's input), the `pretty` renderer and unicode-width (restated / harvested, compared on every case). K5 and the oracles are sampled (differential testing).",
        design='§4 C07'),
    'C08': dict(technique="Coq proofs (structural induction over documents / child lists; renderer refinement for every width) over a hand-written Gallina model of the whole converter pipeline (attr passes, ~60 converters, four stylists, pretty's renderer, post-processing) + generated tables (gen/Tables.v, gen/Kind.v) + differential correspondence of the extracted model with the implementation (document, bytes, counter) on every case + property oracle search",
        text="Proof of the parser-free core, for every Markup node, context, child conversion and width: the node's document is start ++ lines ++ end where start/end hold only blanks/line breaks, the lines are the source's lines in order (the line nodes are the children minus Space/Parbreak tokens; a Space kept inside a line holds no line break), every interior Space contributes exactly one U+0020 atom, every Text its exact text, and a line is followed by exactly `breaks` mandatory line breaks (C08_markup_structure, C08_lines_are_source_lines), and these atoms are what the renderer emits at every width (C08_width_independent). The re-parsed half is decided by K5 + the per-Markup-node oracle on every case. Known finding classes: F15, F16, F17, F18.",
        note="Trusted: Coq kernel (closed under the global context, no axioms); extraction (ExtrOcamlBasic only) and the OCaml driver; translators gen_kind/gen_tables/gen_cli; the Rust harness with its oracles. Modelled, not verified: typst-syntax (parser: its trees are the model's input), the `pretty` renderer and unicode-width (restated / harvested, compared on every case). K5 and the oracles are sampled (differential testing).",
        design='§4 C08'),
    'C09': dict(technique="Coq proofs (structural induction over documents / child lists; renderer refinement for every width) over a hand-written Gallina model of the whole converter pipeline (attr passes, ~60 converters, four stylists, pretty's renderer, post-processing) + generated tables (gen/Tables.v, gen/Kind.v) + differential correspondence of the extracted model with the implementation (document, bytes, counter) on every case + property oracle search",
        text='Partial proof. Proved for every Math node that is not format-disabled, every context, child conversion and width: the children contribute in order, a Space child is a mandatory line break if it held one and exactly one U+0020 otherwise, nothing is emitted between children (C09_math_structure, C09_width_independent). NOT proved: MathDelimited edges, equation delimiters, call arguments (decided by K5 and the oracle on every case). Known finding class: comments inside equations (F13).',
        note="Trusted: Coq kernel (closed under the global context, no axioms); extraction (ExtrOcamlBasic only) and the OCaml driver; translators gen_kind/gen_tables/gen_cli; the Rust harness with its oracles. Modelled, not verified: typst-syntax (parser: its trees are the model's input), the `pretty` renderer and unicode-width (restated / harvested, compared on every case). K5 and the oracles are sampled (differential testing).",
        design='§4 C09'),
    'C10': dict(technique="Coq proofs (structural induction over documents / child lists; renderer refinement for every width) over a hand-written Gallina model of the whole converter pipeline (attr passes, ~60 converters, four stylists, pretty's renderer, post-processing) + generated tables (gen/Tables.v, gen/Kind.v) + differential correspondence of the extracted model with the implementation (document, bytes, counter) on every case + property oracle search",
        text='Proof with a known finding. Proved: every leaf carrying literal content is converted to one atom holding its exact text in every context, disabled or not (C10_literal_leaf_exact); text atoms reach the rendered string unchanged at every width (C10_atoms_rendered_verbatim, C10_rendered_string_is_atoms). The full property is FALSE of the faithful model: C10_refuted exhibits `#let s = "a  <LF>b"` losing its blanks in post-processing (F4, listed as a known finding by class: Str/Raw with White_Space before a line feed). The converse is proved: post-processing leaves a text alone when none of its line feeds is preceded by White_Space inside it and it does not end with one (C10_clean_text_survives_postprocessing), and every text atom the renderer emitted occurs in the output with only the blanks before its own line feeds removed (C10_emitted_text_reaches_output) - so F4 is the only way a literal can change after conversion. Tie: K5 on every case; oracle: literal tokens and ast::Raw::lines/lang/block, input vs re-parsed output.',
        note="Trusted: Coq kernel (closed under the global context, no axioms); extraction (ExtrOcamlBasic only) and the OCaml driver; translators gen_kind/gen_tables/gen_cli; the Rust harness with its oracles. Modelled, not verified: typst-syntax (parser: its trees are the model's input), the `pretty` renderer and unicode-width (restated / harvested, compared on every case). K5 and the oracles are sampled (differential testing).",
        design='§4 C10'),
    "C11": dict(
        technique="Coq proof (closed, unbounded, by list induction) of strip_hygiene over a hand-written Gallina model of "
                  "strip_trailing_whitespace + differential correspondence (extracted OCaml and vm_compute vs the Rust function)",
        text="Closed theorem C11_output_hygiene: for EVERY string s, Post.strip s is non-empty, ends in LF and no line ends in a "
             "Unicode White_Space character; plus idempotence and decidability of the hygiene predicate. The model of "
             "utils::strip_trailing_whitespace (Rust str::lines, trim_end restated in Str.v) is tied to the code by K4 "
             "(thousands of random strings over all White_Space characters, CR/CRLF) and the pipeline's use of it by K5 "
             "(every accepted fixture output must be a fixed point of the model's strip and satisfy the extracted hygiene_b).",
        note="Trusted: Coq kernel; extraction (ExtrOcamlBasic); the restatement of str::lines/trim_end/char::is_whitespace; "
             "K4/K5 are differential tests (sampled). No axioms (Print Assumptions: closed).",
        design="§4 C11"),
    "C14": dict(
        technique="Coq proofs (list induction over inputs/histories) over a Gallina state-machine model of the CLI with an arbitrary formatter F "
                  "+ generated option/clap facts (CliGen.v) + differential correspondence of the extracted model with the real binary on generated file trees",
        text="Closed theorems over Cli.run for EVERY formatter F, file system, invocation shape, style options and history: check mode leaves the "
             "file system untouched, issues no write event and prints no formatter output (C14_check_mode_read_only, C14_check_history_read_only); "
             "exit = 1 iff some readable well-formed input differs from F's output or an I/O error occurred, for file lists, format-all and stdin "
             "(C14_check_exit_*); --check with --inplace is rejected (taken from the regenerated CliGen.v). The model is tied to main.rs/fmt.rs/cli.rs "
             "by K8: the real binary vs the extracted model on generated trees and invocation sequences (contents, mtimes, stdout, exit code).",
        note="Trusted: Coq kernel; gen_cli.py; extraction; the abstract file system (no permissions/symlinks/races/disk-full: runtime behaviour the model "
             "cannot exhibit - partial there); K8 is sampled differential testing. No axioms.",
        design="§4 C14"),
    "C15": dict(
        technique="Coq proofs over the CLI state-machine model (write-event discipline invariant by induction over the input list; isolation of failing inputs) "
                  "+ differential correspondence with the real binary",
        text="Closed theorems for EVERY formatter F and file system: in -i and format-all every write event targets a visited eligible path, writes exactly "
             "F cfg (old content) and only when it differs; the final file system is the initial one with exactly these writes; every other path keeps its node; "
             "format-all eligibility is regular *.typ files at or below the root with no hidden component BELOW the root (C15_walk_eligibility); a failing input "
             "changes nothing but the error count wherever it stands and forces exit 1 (C15_failing_input_is_isolated). Tied to the code by K8 (contents, mtimes, exit).",
        note="Trusted as C14. Repairs a8e4d33 (hidden root) and 3f7329d (swallowed I/O errors) were needed for the property to hold; recorded in known_findings.json as fixed. "
             "'A second run is a no-op' additionally needs idempotence of F (C03, not claimed); K8 exercises repeated invocations.",
        design="§4 C15"),
    "C16": dict(
        technique="Coq proofs over the CLI model + theorems about the option map regenerated from cli.rs/fmt.rs/config.rs on every run (translator) "
                  "+ differential correspondence with the real binary",
        text="Closed theorems: plain mode prints, in argument order, exactly F cfg c (c itself when erroneous) and touches nothing; stdin likewise; "
             "format_with_width s w = F {default with max_width := w} s or s on error; to_config maps column/tab_width/reorder to max_width/tab_spaces/"
             "reorder_import_items and leaves the rest at Config::default, clap defaults are 80/2/false - statements about gen/CliGen.v, which is REGENERATED "
             "from the Rust sources on every run, so clamping or dropping an option breaks the proof itself. K8 compares the binary's stdout/in-place results "
             "with the library's for column in [0,400], tab in [0,16], reorder on/off, and omitted options.",
        note="Trusted as C14 plus the regex translator gen_cli.py (fails closed: unknown shapes become the unbound identifier Unrecognised).",
        design="§4 C16"),
}

NOT_APPLICABLE = {
    "C02": "Property is about Typst's evaluator/layout/rasteriser (other crates, ~100k lines): no executable Gallina model can express "
           "pixel-identical pages; the formatter-side content is decided by C01/C08/C09/C10 (DESIGN.md §4 C02).",
    "C03": "Idempotence needs the exact trivia of the re-parsed output, i.e. a Gallina model of the Typst parser, which is outside the model "
           "(DESIGN.md §3, §4 C03); parser-free mechanism lemmas (strip idempotence) are proved under C11.",
}

PENDING = "check not registered yet: model/theorem for this property is still being built in this round (DESIGN.md §10 order of work)"


def main():
    props = [json.loads(l)["id"] for l in open(os.path.join(VERIF, "properties.jsonl"))]
    checks = []
    for pid in props:
        if pid not in CHECKS:
            continue
        c = CHECKS[pid]
        checks.append({
            "property_id": pid,
            "quick_cmd": "bin/vcheck %s --tier quick" % pid,
            "thorough_cmd": "bin/vcheck %s --tier thorough" % pid,
            "evidence_file": "/verif/evidence/%s.json" % pid,
            "replay_cmd_template": "bin/vcheck %s --replay {path}" % pid,
            "engine": "coq-model+correspondence",
            "level_claimed": {"category": "proof", "text": c["text"], "design_ref": c["design"]},
            "level_note": c["note"],
            "technique": c["technique"],
        })
    na = []
    for pid in props:
        if pid in CHECKS:
            continue
        na.append({"property_id": pid, "reason": NOT_APPLICABLE.get(pid, PENDING)})
    m = {
        "version": 1,
        "setup_cmd": "bin/vcheck --setup",
        "hooks": {
            "guard": "typstyle_verif",
            "enable": "RUSTFLAGS=\"--cfg typstyle_verif\" (set by vlib/common.py for the harness build; CARGO_TARGET_DIR=/verif/build/target)",
            "baseline_off_cmd": BASELINE,
            "source_commits": ["5c43123", "177dfe2"],
            "add_only": True,
        },
        "engines": [{
            "name": "coq-model+correspondence",
            "path": "/verif/coq, /verif/extract, /verif/harness, /verif/vlib",
            "serves_properties": sorted(CHECKS),
            "kind_free_text": "Rocq/Coq 8.16 theorems over a Gallina model of typstyle; model tied to /repo by generated .v files "
                              "and by differential correspondence (extracted OCaml + vm_compute vs the Rust implementation)",
        }],
        "checks": checks,
        "not_applicable": na,
        "notes": "See DESIGN.md. known_findings.json lists recorded findings and fixed defects.",
    }
    with open(os.path.join(VERIF, "MANIFEST.json"), "w") as f:
        json.dump(m, f, indent=1)


if __name__ == "__main__":
    main()
