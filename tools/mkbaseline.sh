#!/bin/bash
# mkbaseline.sh — refresh coq/gen_baseline from the generated files of the UNCHANGED tree (run on a clean /repo only).
cd /verif || exit 2
git -C /repo status --short | grep -q . && { echo "/repo not clean"; exit 2; }
for t in tools/gen_*.py; do python3 $t /repo coq/gen >/dev/null || exit 1; done
cp coq/gen/*.v coq/gen_baseline/
grep -l Unrecognised coq/gen_baseline/*.v && { echo "baseline holds Unrecognised"; exit 1; }
echo "baseline refreshed"
